SPECIFICATION SpecT
CONSTANTS
  Cfg <- CfgB
  NumTokens = 2
  defaultInitValue = 0
  Hist <- HistB
CONSTRAINT Bound
INVARIANT NoRaise
INVARIANT ExactlyOnce
INVARIANT EpisodeIsolation
INVARIANT MessagesOrdered
INVARIANT RecordsScheduleIndependent
