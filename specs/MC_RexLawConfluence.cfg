SPECIFICATION CSpec
CHECK_DEADLOCK FALSE
INVARIANT TerminalsAgree
