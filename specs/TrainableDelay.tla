------------------------------- MODULE TrainableDelay -------------------------------
(***************************************************************************)
(* A trainable (zero-order-hold) communication delay against a static one.  *)
(*                                                                         *)
(* Sender: messages i = 0..M-1 sent at Sent[i] = i*P + J[i] (J = jitter of   *)
(* the sender's computation time).  Receiver step starting at time ts.       *)
(*                                                                         *)
(* StaticWindow(d): the connection has the fixed delay d: message i arrives  *)
(* at Sent[i] + d; the step has consumed every message that arrived at or    *)
(* before ts (strictly before for a skipped connection); its window holds    *)
(* the last W of them, oldest first, left-padded with empty entries.         *)
(*                                                                         *)
(* ZohWindow(d): what rex does (TrainableDist.apply_delay, apply_window):    *)
(* the computation graph was generated with the minimal delay Min, the       *)
(* window is extended by Ext = ceil((Max-Min)/P) entries; at run time the    *)
(* first entry of the extended window whose Sent + d lies after ts is        *)
(* located and the W entries before it are taken.                            *)
(*                                                                         *)
(* C10 claims ZohWindow(d) = StaticWindow(d) for Min <= d <= Max and         *)
(* saturation outside.  Every initial state is one case; TLC evaluates both  *)
(* and emits the case; the harness feeds it to the real apply_delay.         *)
(***************************************************************************)
EXTENDS Integers, Sequences, FiniteSets, TLC, Json

CONSTANTS Periods, Jitters, M, MaxTs, Ranges, Ws
(* Ranges: set of <<Min, Max>> *)

RangesDef == {<<0, 2>>, <<1, 3>>, <<0, 4>>}   \* substituted for Ranges in the configuration file

VARIABLES case
vars == <<case>>

CeilDiv(a, b) == (a + b - 1) \div b
Clip(d, lo, hi) == IF d < lo THEN lo ELSE IF d > hi THEN hi ELSE d
LastN(s, n) == IF Len(s) <= n THEN s ELSE SubSeq(s, Len(s) - n + 1, Len(s))
PadLeft(s, n) == [i \in 1..(n - Len(s)) |-> -1] \o s

Arrived(sent, d, ts, skip) == IF skip THEN sent + d < ts ELSE sent + d <= ts

(* sequence numbers (oldest first) of the last n messages that arrived by ts under delay d *)
Consumed(Sent, d, ts, skip, n) ==
  LET idx == SelectSeq([i \in 1..Len(Sent) |-> i], LAMBDA i : Arrived(Sent[i], d, ts, skip))
  IN PadLeft([j \in 1..Len(LastN(idx, n)) |-> LastN(idx, n)[j] - 1], n)

StaticWindow(Sent, d, ts, skip, W) == Consumed(Sent, d, ts, skip, W)

ZohWindow(Sent, d, ts, skip, W, Min, Ext) ==
  LET ext == Consumed(Sent, Min, ts, skip, W + Ext)                 \* the extended window the compiled schedule hands over
      recv(j) == IF ext[j] < 0 THEN 0 ELSE Sent[ext[j] + 1] + d     \* negative entries keep their receive time 0
      later == {j \in 1..Len(ext) : recv(j) > ts}
      idxmax == IF later = {} THEN Len(ext) + 1 ELSE CHOOSE j \in later : \A k \in later : j <= k
      idxmin == idxmax - W
      \* lax.dynamic_slice: a negative start index counts from the end, then the index is clamped into range
      s0 == IF idxmin < 1 THEN idxmin + Len(ext) ELSE idxmin
      start == IF s0 < 1 THEN 1 ELSE IF s0 > Len(ext) - W + 1 THEN Len(ext) - W + 1 ELSE s0
  IN [win |-> SubSeq(ext, start, start + W - 1), idxmin |-> idxmin - 1, ext |-> ext]

Cases ==
  {[P |-> P, J |-> J, ts |-> ts, Min |-> r[1], Max |-> r[2], d |-> d, W |-> W, skip |-> skip] :
     P \in Periods, J \in [1..M -> Jitters], ts \in 0..MaxTs, r \in Ranges, d \in 0..8, W \in Ws, skip \in BOOLEAN}

Sent(c) == [i \in 1..M |-> (i - 1) * c.P + c.J[i]]
Deff(c) == Clip(c.d, c.Min, c.Max)
Ext(c) == CeilDiv(c.Max - c.Min, c.P)
Monotone(c) == \A i \in 1..(M - 1) : Sent(c)[i] <= Sent(c)[i + 1]

Init == case \in {c \in Cases : c.d <= c.Max + 1 /\ Monotone(c)}
Next == UNCHANGED case
Spec == Init /\ [][Next]_vars

Z(c) == ZohWindow(Sent(c), Deff(c), c.ts, c.skip, c.W, c.Min, Ext(c))
S(c) == StaticWindow(Sent(c), Deff(c), c.ts, c.skip, c.W)

(* the claim of C10 on the model; its violations are the candidate findings that the harness replays on the code *)
ZohEqualsStatic == Z(case).idxmin >= 0 /\ Z(case).win = S(case)
Tie(c) == \E i \in 1..M : Sent(c)[i] + Deff(c) = c.ts

Emit == PrintT("TDC|" \o ToJson([c |-> case, sent |-> Sent(case), deff |-> Deff(case), ext |-> Ext(case), extwin |-> Z(case).ext, zoh |-> Z(case).win,
                                  idxmin |-> Z(case).idxmin, static |-> S(case), tie |-> Tie(case)]))
=============================================================================
