SPECIFICATION Spec
CONSTANTS
  Nodes = {"a", "b", "c"}
  Delays = {0, 1, 3}
  Dists = {"D1", "D2"}
  MaxLen = 6
INVARIANT PhaseIsLongestPath
INVARIANT LoopIffCycle
INVARIANT KeysUnique
INVARIANT Emit
CHECK_DEADLOCK FALSE
