------------------------------- MODULE RexSchedule -------------------------------
(***************************************************************************)
(* The compiled runtime's static schedule.                                   *)
(*                                                                         *)
(* A compiled rex.graph.Graph turns every episode's raw computation graph    *)
(* (vertices = node steps, edges = messages) into a table `Timings':         *)
(* partition p (closed by supervisor step p) x generation g x slot, each     *)
(* slot with a run mask, the vertex' sequence number, start/end time and the *)
(* input windows (sequence numbers, send/receive times) it is to read from   *)
(* the producers' output ring buffers (written at seq mod size).             *)
(*                                                                         *)
(* One trace = one episode of one compiled instance: the public              *)
(* Graph.graphs_raw, Graph.timings (projected to the run=TRUE slots in       *)
(* execution order) and the buffer sizes.  The specification executes the    *)
(* schedule generation by generation on an abstract machine                  *)
(*     done[kind]  - number of executed steps of that node                   *)
(*     ring[kind]  - which sequence number each ring-buffer slot holds       *)
(* and judges every slot against definitions that are INDEPENDENT of rex:    *)
(* WindowOf is computed here from the raw edges.                             *)
(* Clauses: C07 (EachVertexOnce, InSeqOrder, ProducersFirst,                 *)
(* SupClosesPartition, CarriesOwnTimes, CarriesOwnWindow, RequiredExecuted)  *)
(* and the static half of C08 (BufferHoldsScheduledMessage).                 *)
(***************************************************************************)
EXTENDS Integers, Sequences, FiniteSets, TLC, Json, IOUtils, TLCExt

Traces == JsonDeserialize(IOEnv.TRACE_FILE)

VARIABLES tid, pos, done, ring, err, fin
vars == <<tid, pos, done, ring, err, fin>>

T == Traces[tid]
NoErr == <<>>
Err(clause, at, exp, got) == [clause |-> clause, at |-> at, exp |-> exp, got |-> got]
FirstErr(cs) == LET bad == {i \in 1..Len(cs) : ~cs[i][1]} IN
                IF bad = {} THEN NoErr ELSE cs[CHOOSE i \in bad : \A j \in bad : i <= j][2]
LastN(s, n) == IF Len(s) <= n THEN s ELSE SubSeq(s, Len(s) - n + 1, Len(s))
RECURSIVE FlatErr(_)
FlatErr(s) == IF s = <<>> THEN NoErr ELSE IF Head(s) # NoErr THEN Head(s) ELSE FlatErr(Tail(s))

Kinds(t) == DOMAIN t.verts
EdgeKey(a, b) == a \o ">" \o b
HasEdge(t, a, b) == EdgeKey(a, b) \in DOMAIN t.edges

(* The flattened list of generations: gens[i] = [p |-> partition, slots |-> <<slot,...>>] *)
Gens(t) == t.gens

(* ---- independent definition of a step's input window ------------------- *)
(* the last W messages consumed up to and including step k, oldest first, left-padded with empty entries *)
WindowOf(t, a, b, k) ==
  LET e == t.edges[EdgeKey(a, b)]
      W == t.W[EdgeKey(a, b)]
      idx == SelectSeq([i \in 1..Len(e) |-> i], LAMBDA i : e[i].out >= 0 /\ e[i].in >= 0 /\ e[i].in <= k)
      sel == LastN(idx, W)
      real == [j \in 1..Len(sel) |-> [seq |-> e[sel[j]].out, sent |-> t.verts[a][e[sel[j]].out + 1].end, recv |-> e[sel[j]].recv]]
      pad == [j \in 1..(W - Len(sel)) |-> [seq |-> -1, sent |-> 0, recv |-> 0]]
  IN pad \o real

NormWin(w) == [j \in 1..Len(w) |-> IF w[j].seq < 0 THEN [seq |-> -1, sent |-> 0, recv |-> 0] ELSE w[j]]

(* ---- judging one slot --------------------------------------------------- *)
SlotErr(t, s, p, dn, rg) ==
  LET k == s.seq
      kind == s.kind
      at == <<s.slot, p, kind, k>>
      exists == k >= 0 /\ k < Len(t.verts[kind])
      v == t.verts[kind][k + 1]
      ins == {a \in Kinds(t) : HasEdge(t, a, kind)}
      winErr(a) ==
         LET w == NormWin(s.wins[a])
             exp == WindowOf(t, a, kind, k)
         IN IF w # exp THEN Err("CarriesOwnWindow", <<at, a>>, exp, w)
            ELSE IF \E j \in 1..Len(w) : w[j].seq >= 0 /\ ~(w[j].seq < dn[a])
                 THEN Err("ProducersFirst", <<at, a>>, dn[a], w)
            ELSE IF \E j \in 1..Len(w) : w[j].seq >= 0 /\ rg[a][(w[j].seq % t.buf[a]) + 1] # w[j].seq
                 THEN Err("BufferHoldsScheduledMessage", <<at, a, t.buf[a]>>, w, rg[a])
            \* an entry with a negative sequence number is read at (-1 mod size): that slot must still hold the default output
            ELSE IF \E j \in 1..Len(w) : w[j].seq < 0 /\ rg[a][((-1) % t.buf[a]) + 1] # -1
                 THEN Err("BufferHoldsDefaultForNegative", <<at, a, t.buf[a]>>, w, rg[a])
            ELSE NoErr
      RECURSIVE InsErr(_)
      InsErr(S) == IF S = {} THEN NoErr ELSE LET a == CHOOSE x \in S : TRUE IN
                     IF winErr(a) # NoErr THEN winErr(a) ELSE InsErr(S \ {a})
  IN IF ~exists THEN Err("VertexExists", at, Len(t.verts[kind]), k)
     ELSE IF k # dn[kind] THEN Err(IF k < dn[kind] THEN "EachVertexOnce" ELSE "InSeqOrder", at, dn[kind], k)
     ELSE IF s.start # v.start \/ s.end # v.end THEN Err("CarriesOwnTimes", at, v, <<s.start, s.end>>)
     ELSE InsErr(ins)

GenErr(t, g, dn, rg) ==
  LET slots == g.slots
      kinds == [i \in 1..Len(slots) |-> slots[i].kind]
      dup == \E i, j \in 1..Len(slots) : i < j /\ kinds[i] = kinds[j]
      supHere == \E i \in 1..Len(slots) : kinds[i] = t.sup
  IN IF dup THEN Err("SameKindTwiceInGeneration", <<g.p>>, "distinct kinds", kinds)
     ELSE IF supHere /\ ~g.last THEN Err("SupClosesPartition", <<g.p>>, "supervisor only in the last generation", kinds)
     ELSE IF g.last /\ ~(Len(slots) = 1 /\ kinds[1] = t.sup /\ slots[1].seq = g.p)
          THEN Err("SupClosesPartition", <<g.p>>, <<t.sup, g.p>>, slots)
     ELSE FlatErr([i \in 1..Len(slots) |-> SlotErr(t, slots[i], g.p, dn, rg)])

(* ---- completion --------------------------------------------------------- *)
SupStart(t, p) == t.verts[t.sup][p + 1].start
FinalErr(t, dn) ==
  LET supDone == dn[t.sup]
      missed == {kv \in UNION {{<<a, i>> : i \in 1..Len(t.verts[a])} : a \in Kinds(t)} :
                   /\ ~t.prune
                   /\ kv[2] - 1 >= dn[kv[1]]
                   /\ \E p \in 0..(t.H - 1) : t.verts[kv[1]][kv[2]].end < SupStart(t, p)}   \* strictly before: at a tie the vertex may depend on that supervisor step
  IN IF supDone # t.H THEN Err("RequiredExecuted", <<"supervisor steps inside the horizon">>, t.H, supDone)
     ELSE IF missed # {} THEN Err("RequiredExecuted", <<"prune=False: vertex finished before a supervisor step">>, "executed",
                                  CHOOSE kv \in missed : TRUE)
     ELSE NoErr

---------------------------------------------------------------------------
InitFor(i) ==
  /\ tid = i
  /\ pos = 1
  /\ done = [a \in Kinds(Traces[i]) |-> 0]
  /\ ring = [a \in Kinds(Traces[i]) |-> [j \in 1..Traces[i].buf[a] |-> -1]]
  /\ err = NoErr
  /\ fin = FALSE

SInit == InitFor(1)

Verdict(e) ==
  PrintT("VERDICT|" \o ToString(tid) \o "|" \o T.id \o "|" \o (IF e = NoErr THEN "accept" ELSE "reject") \o "|"
         \o (IF e = NoErr THEN "-" ELSE e.clause) \o "|" \o ToString(e))

ExecGen ==
  /\ err = NoErr /\ pos <= Len(Gens(T))
  /\ LET g == Gens(T)[pos]
         e == GenErr(T, g, done, ring)
     IN IF e # NoErr
        THEN err' = e /\ UNCHANGED <<tid, pos, done, ring, fin>>
        ELSE /\ pos' = pos + 1
             /\ done' = [a \in DOMAIN done |-> IF \E i \in 1..Len(g.slots) : g.slots[i].kind = a THEN done[a] + 1 ELSE done[a]]
             /\ ring' = [a \in DOMAIN ring |->
                           IF \E i \in 1..Len(g.slots) : g.slots[i].kind = a
                           THEN [ring[a] EXCEPT ![(done[a] % T.buf[a]) + 1] = done[a]]
                           ELSE ring[a]]
             /\ UNCHANGED <<tid, err, fin>>

Finish ==
  /\ (err # NoErr \/ pos > Len(Gens(T)))
  /\ ~fin
  /\ Verdict(IF err # NoErr THEN err ELSE FinalErr(T, done))
  /\ IF tid < Len(Traces)
     THEN /\ tid' = tid + 1 /\ pos' = 1 /\ err' = NoErr /\ fin' = FALSE
          /\ done' = [a \in Kinds(Traces[tid + 1]) |-> 0]
          /\ ring' = [a \in Kinds(Traces[tid + 1]) |-> [j \in 1..Traces[tid + 1].buf[a] |-> -1]]
     ELSE fin' = TRUE /\ UNCHANGED <<tid, pos, done, ring, err>>

SNext == ExecGen \/ Finish
SSpec == SInit /\ [][SNext]_vars
=============================================================================
