---------------------------- MODULE MC_RexSync ----------------------------
(* Model-checking wrapper: the deadlock check of TLC is the NoStall property (C05):
   a state without successor while the user is still inside (or before) a lifecycle call. *)
EXTENDS RexSync

UserDone == pc["user"] = "Done"
NextT == Next \/ (UserDone /\ UNCHANGED vars)
SpecT == Init /\ [][NextT]_vars

NoRaise == raised = ""
(* the observation futures handed to the user are answered exactly once per completed step *)
Handshake == stepsRun <= obsSeen
(* after stop() returned, nothing of the episode is left runnable and the supervisor is stopped *)
StoppedMeansQuiet == (pc["user"] = "st9" /\ raised = "") => (state \in {"STOPPED", "READY"} /\ stopFut = "done")

Bound == ticks <= MaxTicks /\ nf < 38
=============================================================================
