SPECIFICATION SpecT
CONSTANTS
  Fixed = TRUE
  NumTokens = 2
  MaxTicks = 3
  MaxCalls = 4
INVARIANT NoRaise
INVARIANT Handshake
INVARIANT StoppedMeansQuiet
CONSTRAINT Bound
