SPECIFICATION Spec
CONSTANTS
  L = 2
  Rewards = {0, 1, 3}
  Episodes = {0, 1, 2}
INVARIANT LogAccounting
INVARIANT LogStableBetweenEnds
INVARIANT AutoResetSemantics
INVARIANT MomentsOfEverythingSeen
INVARIANT ScheduleInForce
CHECK_DEADLOCK FALSE
