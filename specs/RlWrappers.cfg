SPECIFICATION Spec
CONSTANTS
  L = 2
  Rewards = {0, 1, 3}
INVARIANT LogAccounting
INVARIANT LogStableBetweenEnds
INVARIANT AutoResetSemantics
INVARIANT MomentsOfEverythingSeen
INVARIANT Emit
CHECK_DEADLOCK FALSE
