SPECIFICATION MCSpec
CHECK_DEADLOCK FALSE
INVARIANT StepsGapFreeNonOverlap
INVARIANT StartLaw
INVARIANT PhaseReturnsToGrid
INVARIANT FrequencySpacing
INVARIANT MessagesCausalFifo
INVARIANT ConsumerIsFirstEligible
INVARIANT WindowIsMostRecent
