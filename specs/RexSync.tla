------------------------------- MODULE RexSync -------------------------------
(***************************************************************************)
(* The lifecycle / synchronizer hand-shake of the threaded runtime          *)
(* (rex/asynchronous.py: _Synchronizer, AsyncGraph.start/stop/run/reset/    *)
(* step, _submit gating by lifecycle state, single-worker executors),       *)
(* implementation-shaped: one label per shared access (DESIGN Appendix A),  *)
(* with the data path abstracted to counters:                               *)
(*    tokens  - q_tick           timed   - q_ts_start                       *)
(*    grouped - q_grouped of the supervisor's (one, abstract) input         *)
(*                                                                         *)
(* Threads: the user, the supervisor node's worker, one connection worker.  *)
(* Fixed = TRUE models AsyncGraph.stop() as it stands after the `fix:`      *)
(* commit (raise _must_reset before looking for a pending action; tolerate  *)
(* the concurrent popleft); Fixed = FALSE is the pinned code and is kept to *)
(* show that the model finds the lost wake-up and the IndexError race.      *)
(***************************************************************************)
EXTENDS Integers, Sequences, TLC

CONSTANTS Fixed,      \* stop() as repaired
          NumTokens,  \* tokens per node (10 in rex)
          MaxTicks,   \* bound on the number of supervisor ticks timed per episode (state constraint only)
          MaxCalls    \* bound on the number of API calls issued by the user

Last(s) == s[Len(s)]

(* --algorithm RexSync {
variables
  state = "STOPPED",          \* lifecycle state of the supervisor wrapper
  cstate = "STOPPED",         \* lifecycle state of the connection wrapper
  exq = <<>>,                 \* supervisor executor FIFO
  cexq = <<>>,                \* connection executor FIFO
  fut = [i \in 1..40 |-> "none"],   \* futures of the synchronizer: none/pending/set/cancelled
  nf = 0,                     \* number of futures created
  qact = <<>>, qobs = <<>>,   \* _q_act, _q_obs
  fobs = 0,                   \* _f_obs
  mustReset = FALSE,
  tokens = 0, timed = 0, grouped = 0, ticks = 0,
  stopFut = "none",           \* future of the supervisor's _stopping task: none/pending/done
  cstopFut = "none",          \* future of the connection's _stopping task
  initialStep = TRUE,
  eps = 0,                    \* episode counter (node._eps)
  calls = 0,
  mode = "idle",              \* user protocol state: idle / run / step
  raised = "",                \* exception that escaped a lifecycle call ("" = none)
  obsSeen = 0,                \* observations the user received in this episode
  stepsRun = 0;               \* supervisor steps that completed with an action (not skipped)

define {
  NodeAllowed(st) == st \in {"READY", "STARTING", "READY_TO_START", "RUNNING"}
  ConnAllowed(st) == st \in {"READY", "RUNNING"}
  Pending(s) == {i \in 1..Len(s) : fut[s[i]] = "pending"}
}

\* _AsyncNodeWrapper._submit : one atomic step (under the wrapper lock)
macro SubmitNode(task, forced) {
  if (NodeAllowed(state) \/ forced) { exq := Append(exq, task) }
}
macro SubmitConn(task, forced) {
  if (ConnAllowed(cstate) \/ forced) { cexq := Append(cexq, task) }
}

\* ---- supervisor worker: push_step (inline or task) -------------------------------------------
procedure PushStep()
  variables fact = 0, newobs = 0, skipped = FALSE;
{
ps0:  if (timed > 0 /\ grouped > 0) {          \* has_ts_step /\ has_grouped (reads q_grouped: shared)
        timed := timed - 1 || grouped := grouped - 1;
        \* _Synchronizer._async_step
sy1:    nf := nf + 1; fact := nf; fut[nf] := "pending"; qact := Append(qact, nf);   \* _f_act, _q_act.append
sy2:    nf := nf + 1; newobs := nf; fut[nf] := "pending"; qobs := Append(qobs, nf);  \* _q_obs.append
sy3:    fut[fobs] := "set"; fobs := newobs;
sy4:    if (~mustReset) {
sy5:      await fut[fact] # "pending";                      \* _f_act.result()
sy6:      qact := Tail(qact);                                    \* _q_act.popleft()
          if (fut[fact] = "cancelled") { mustReset := TRUE; skipped := TRUE }
          else { stepsRun := stepsRun + 1 }
        } else { skipped := TRUE };
        \* rest of push_step: outputs are pushed only when not skipped and RUNNING (not modelled), then:
ps1:    if (state = "RUNNING") {                                 \* read of _state races with the user's flip
          tokens := tokens + 1;
ps2:      SubmitNode("push_sched", FALSE);
        }
      };
ps9:  return;
}

\* ---- supervisor worker: push_scheduled_ts + push_phase_shift ---------------------------------
procedure PushSched()
{
sc0:  if (tokens > 0) {
        tokens := tokens - 1; timed := timed + 1; ticks := ticks + 1;
sc1:    SubmitNode("push_sched", FALSE);                         \* simulate output time stamps ahead
sc2:    call PushStep();                                         \* inline push_step
sc3:    SubmitConn("push_expected", FALSE);                      \* non-blocking input: expected selection
      };
sc9:  return;
}

\* ---- user: AsyncGraph.stop -------------------------------------------------------------------
procedure Stop()
{
st0:  if (state = "RUNNING") {
st1:    state := "STOPPING"; exq := Append(exq, "stopping"); stopFut := "pending";   \* under the lock
      } else { stopFut := "done" };
st2:  if (Fixed) {
        mustReset := TRUE;
st3f:   if (qact # <<>>) { if (fut[Last(qact)] = "pending") { fut[Last(qact)] := "cancelled" } };   \* try: action[-1].cancel()
      } else {
st3:    if (Len(qact) > 0) {                                     \* len(action) > 0
st4:      if (qact = <<>>) { raised := "IndexError" }            \* action[-1] after a concurrent popleft
          else if (fut[Last(qact)] = "pending") { fut[Last(qact)] := "cancelled" };
        };
      };
st5:  if (raised = "") {
        await stopFut = "done";                                   \* [f.result() for f in fs]
        initialStep := TRUE;
      };
st9:  return;
}

\* ---- user: AsyncGraph.start ------------------------------------------------------------------
procedure Start()
{
sa0:  call Stop();
sa1:  if (raised = "") {
        \* _synchronizer.reset(); node._reset(); (all workers idle: single atomic step)
        mustReset := FALSE; qact := <<>>; nf := nf + 1; fut[nf] := "pending"; qobs := <<nf>>; fobs := nf;
        tokens := 0; timed := 0; grouped := 0; ticks := 0; eps := eps + 1; obsSeen := 0; stepsRun := 0;
        state := "READY"; cstate := "READY";
sa2:    state := "RUNNING"; cstate := "RUNNING"; tokens := NumTokens;     \* _startup/_start (startup tasks elided)
sa3:    SubmitNode("push_sched", FALSE);
      };
sa9:  return;
}

procedure RunUntilSup()
  variables fo = 0;
{
ru0:  fo := Head(qobs); qobs := Tail(qobs);                       \* observation.popleft()
ru1:  await fut[fo] = "set";                                      \* .result()
      initialStep := FALSE; obsSeen := obsSeen + 1;
ru9:  return;
}

procedure RunSup()
{
rs0:  if (~initialStep) {
rs1:    if (qact = <<>>) { raised := "IndexError(run_supervisor)" }
        else if (fut[Last(qact)] = "pending") { fut[Last(qact)] := "set" }
        else { raised := "InvalidState(run_supervisor)" };
      };
rs9:  return;
}

\* ---- processes ---------------------------------------------------------------------------------
fair process (User = "user")
{
u0:   while (calls < MaxCalls /\ raised = "") {
        calls := calls + 1;
        either { \* run()
          await mode \in {"idle", "run"};
          mode := "run";
          if (initialStep) { call Start() };
ur1:      if (raised = "") { call RunUntilSup() };
ur2:      if (raised = "") { call RunSup() };
        } or {   \* reset()
          mode := "step";
          call Start();
ue1:      if (raised = "") { call RunUntilSup() };
        } or {   \* step()
          await mode = "step";
          call RunSup();
us1:      if (raised = "") { call RunUntilSup() };
        } or {   \* stop()
          mode := "idle";
          call Stop();
        };
      };
u9:   skip;
}

fair process (Sup = "sup")
  variables task = "";
{
w0:   while (TRUE) {
        await exq # <<>>;
        task := Head(exq); exq := Tail(exq);
w1:     if (task = "push_sched") { call PushSched() }
        else if (task = "push_step") { call PushStep() }
        else {
          \* _stopping: stop the input connection, wait for it, then STOPPED
          assert task = "stopping";
ws1:      if (cstate = "RUNNING") { cstate := "STOPPING"; cexq := Append(cexq, "stopping"); cstopFut := "pending" }
          else { cstopFut := "done" };
ws2:      await cstopFut = "done";
ws3:      state := "STOPPED"; stopFut := "done";
        };
      };
}

fair process (Conn = "conn")
  variables ctask = "";
{
c0:   while (TRUE) {
        await cexq # <<>>;
        ctask := Head(cexq); cexq := Tail(cexq);
c1:     if (ctask = "push_expected") {
          \* push_expected_nonblocking -> push_selection: group available, wake the node
          grouped := grouped + 1;                                 \* q_grouped.append (shared with the node)
c2:       SubmitNode("push_step", FALSE);
        } else {
          assert ctask = "stopping";
          cstate := "STOPPED"; cstopFut := "done";
        };
      };
}
} *)
\* BEGIN TRANSLATION (chksum(pcal) = "ceb1b536" /\ chksum(tla) = "a892aa97")
VARIABLES pc, state, cstate, exq, cexq, fut, nf, qact, qobs, fobs, mustReset, 
          tokens, timed, grouped, ticks, stopFut, cstopFut, initialStep, eps, 
          calls, mode, raised, obsSeen, stepsRun, stack

(* define statement *)
NodeAllowed(st) == st \in {"READY", "STARTING", "READY_TO_START", "RUNNING"}
ConnAllowed(st) == st \in {"READY", "RUNNING"}
Pending(s) == {i \in 1..Len(s) : fut[s[i]] = "pending"}

VARIABLES fact, newobs, skipped, fo, task, ctask

vars == << pc, state, cstate, exq, cexq, fut, nf, qact, qobs, fobs, mustReset, 
           tokens, timed, grouped, ticks, stopFut, cstopFut, initialStep, eps, 
           calls, mode, raised, obsSeen, stepsRun, stack, fact, newobs, 
           skipped, fo, task, ctask >>

ProcSet == {"user"} \cup {"sup"} \cup {"conn"}

Init == (* Global variables *)
        /\ state = "STOPPED"
        /\ cstate = "STOPPED"
        /\ exq = <<>>
        /\ cexq = <<>>
        /\ fut = [i \in 1..40 |-> "none"]
        /\ nf = 0
        /\ qact = <<>>
        /\ qobs = <<>>
        /\ fobs = 0
        /\ mustReset = FALSE
        /\ tokens = 0
        /\ timed = 0
        /\ grouped = 0
        /\ ticks = 0
        /\ stopFut = "none"
        /\ cstopFut = "none"
        /\ initialStep = TRUE
        /\ eps = 0
        /\ calls = 0
        /\ mode = "idle"
        /\ raised = ""
        /\ obsSeen = 0
        /\ stepsRun = 0
        (* Procedure PushStep *)
        /\ fact = [ self \in ProcSet |-> 0]
        /\ newobs = [ self \in ProcSet |-> 0]
        /\ skipped = [ self \in ProcSet |-> FALSE]
        (* Procedure RunUntilSup *)
        /\ fo = [ self \in ProcSet |-> 0]
        (* Process Sup *)
        /\ task = ""
        (* Process Conn *)
        /\ ctask = ""
        /\ stack = [self \in ProcSet |-> << >>]
        /\ pc = [self \in ProcSet |-> CASE self = "user" -> "u0"
                                        [] self = "sup" -> "w0"
                                        [] self = "conn" -> "c0"]

ps0(self) == /\ pc[self] = "ps0"
             /\ IF timed > 0 /\ grouped > 0
                   THEN /\ /\ grouped' = grouped - 1
                           /\ timed' = timed - 1
                        /\ pc' = [pc EXCEPT ![self] = "sy1"]
                   ELSE /\ pc' = [pc EXCEPT ![self] = "ps9"]
                        /\ UNCHANGED << timed, grouped >>
             /\ UNCHANGED << state, cstate, exq, cexq, fut, nf, qact, qobs, 
                             fobs, mustReset, tokens, ticks, stopFut, cstopFut, 
                             initialStep, eps, calls, mode, raised, obsSeen, 
                             stepsRun, stack, fact, newobs, skipped, fo, task, 
                             ctask >>

sy1(self) == /\ pc[self] = "sy1"
             /\ nf' = nf + 1
             /\ fact' = [fact EXCEPT ![self] = nf']
             /\ fut' = [fut EXCEPT ![nf'] = "pending"]
             /\ qact' = Append(qact, nf')
             /\ pc' = [pc EXCEPT ![self] = "sy2"]
             /\ UNCHANGED << state, cstate, exq, cexq, qobs, fobs, mustReset, 
                             tokens, timed, grouped, ticks, stopFut, cstopFut, 
                             initialStep, eps, calls, mode, raised, obsSeen, 
                             stepsRun, stack, newobs, skipped, fo, task, ctask >>

sy2(self) == /\ pc[self] = "sy2"
             /\ nf' = nf + 1
             /\ newobs' = [newobs EXCEPT ![self] = nf']
             /\ fut' = [fut EXCEPT ![nf'] = "pending"]
             /\ qobs' = Append(qobs, nf')
             /\ pc' = [pc EXCEPT ![self] = "sy3"]
             /\ UNCHANGED << state, cstate, exq, cexq, qact, fobs, mustReset, 
                             tokens, timed, grouped, ticks, stopFut, cstopFut, 
                             initialStep, eps, calls, mode, raised, obsSeen, 
                             stepsRun, stack, fact, skipped, fo, task, ctask >>

sy3(self) == /\ pc[self] = "sy3"
             /\ fut' = [fut EXCEPT ![fobs] = "set"]
             /\ fobs' = newobs[self]
             /\ pc' = [pc EXCEPT ![self] = "sy4"]
             /\ UNCHANGED << state, cstate, exq, cexq, nf, qact, qobs, 
                             mustReset, tokens, timed, grouped, ticks, stopFut, 
                             cstopFut, initialStep, eps, calls, mode, raised, 
                             obsSeen, stepsRun, stack, fact, newobs, skipped, 
                             fo, task, ctask >>

sy4(self) == /\ pc[self] = "sy4"
             /\ IF ~mustReset
                   THEN /\ pc' = [pc EXCEPT ![self] = "sy5"]
                        /\ UNCHANGED skipped
                   ELSE /\ skipped' = [skipped EXCEPT ![self] = TRUE]
                        /\ pc' = [pc EXCEPT ![self] = "ps1"]
             /\ UNCHANGED << state, cstate, exq, cexq, fut, nf, qact, qobs, 
                             fobs, mustReset, tokens, timed, grouped, ticks, 
                             stopFut, cstopFut, initialStep, eps, calls, mode, 
                             raised, obsSeen, stepsRun, stack, fact, newobs, 
                             fo, task, ctask >>

sy5(self) == /\ pc[self] = "sy5"
             /\ fut[fact[self]] # "pending"
             /\ pc' = [pc EXCEPT ![self] = "sy6"]
             /\ UNCHANGED << state, cstate, exq, cexq, fut, nf, qact, qobs, 
                             fobs, mustReset, tokens, timed, grouped, ticks, 
                             stopFut, cstopFut, initialStep, eps, calls, mode, 
                             raised, obsSeen, stepsRun, stack, fact, newobs, 
                             skipped, fo, task, ctask >>

sy6(self) == /\ pc[self] = "sy6"
             /\ qact' = Tail(qact)
             /\ IF fut[fact[self]] = "cancelled"
                   THEN /\ mustReset' = TRUE
                        /\ skipped' = [skipped EXCEPT ![self] = TRUE]
                        /\ UNCHANGED stepsRun
                   ELSE /\ stepsRun' = stepsRun + 1
                        /\ UNCHANGED << mustReset, skipped >>
             /\ pc' = [pc EXCEPT ![self] = "ps1"]
             /\ UNCHANGED << state, cstate, exq, cexq, fut, nf, qobs, fobs, 
                             tokens, timed, grouped, ticks, stopFut, cstopFut, 
                             initialStep, eps, calls, mode, raised, obsSeen, 
                             stack, fact, newobs, fo, task, ctask >>

ps1(self) == /\ pc[self] = "ps1"
             /\ IF state = "RUNNING"
                   THEN /\ tokens' = tokens + 1
                        /\ pc' = [pc EXCEPT ![self] = "ps2"]
                   ELSE /\ pc' = [pc EXCEPT ![self] = "ps9"]
                        /\ UNCHANGED tokens
             /\ UNCHANGED << state, cstate, exq, cexq, fut, nf, qact, qobs, 
                             fobs, mustReset, timed, grouped, ticks, stopFut, 
                             cstopFut, initialStep, eps, calls, mode, raised, 
                             obsSeen, stepsRun, stack, fact, newobs, skipped, 
                             fo, task, ctask >>

ps2(self) == /\ pc[self] = "ps2"
             /\ IF NodeAllowed(state) \/ FALSE
                   THEN /\ exq' = Append(exq, "push_sched")
                   ELSE /\ TRUE
                        /\ exq' = exq
             /\ pc' = [pc EXCEPT ![self] = "ps9"]
             /\ UNCHANGED << state, cstate, cexq, fut, nf, qact, qobs, fobs, 
                             mustReset, tokens, timed, grouped, ticks, stopFut, 
                             cstopFut, initialStep, eps, calls, mode, raised, 
                             obsSeen, stepsRun, stack, fact, newobs, skipped, 
                             fo, task, ctask >>

ps9(self) == /\ pc[self] = "ps9"
             /\ pc' = [pc EXCEPT ![self] = Head(stack[self]).pc]
             /\ fact' = [fact EXCEPT ![self] = Head(stack[self]).fact]
             /\ newobs' = [newobs EXCEPT ![self] = Head(stack[self]).newobs]
             /\ skipped' = [skipped EXCEPT ![self] = Head(stack[self]).skipped]
             /\ stack' = [stack EXCEPT ![self] = Tail(stack[self])]
             /\ UNCHANGED << state, cstate, exq, cexq, fut, nf, qact, qobs, 
                             fobs, mustReset, tokens, timed, grouped, ticks, 
                             stopFut, cstopFut, initialStep, eps, calls, mode, 
                             raised, obsSeen, stepsRun, fo, task, ctask >>

PushStep(self) == ps0(self) \/ sy1(self) \/ sy2(self) \/ sy3(self)
                     \/ sy4(self) \/ sy5(self) \/ sy6(self) \/ ps1(self)
                     \/ ps2(self) \/ ps9(self)

sc0(self) == /\ pc[self] = "sc0"
             /\ IF tokens > 0
                   THEN /\ tokens' = tokens - 1
                        /\ timed' = timed + 1
                        /\ ticks' = ticks + 1
                        /\ pc' = [pc EXCEPT ![self] = "sc1"]
                   ELSE /\ pc' = [pc EXCEPT ![self] = "sc9"]
                        /\ UNCHANGED << tokens, timed, ticks >>
             /\ UNCHANGED << state, cstate, exq, cexq, fut, nf, qact, qobs, 
                             fobs, mustReset, grouped, stopFut, cstopFut, 
                             initialStep, eps, calls, mode, raised, obsSeen, 
                             stepsRun, stack, fact, newobs, skipped, fo, task, 
                             ctask >>

sc1(self) == /\ pc[self] = "sc1"
             /\ IF NodeAllowed(state) \/ FALSE
                   THEN /\ exq' = Append(exq, "push_sched")
                   ELSE /\ TRUE
                        /\ exq' = exq
             /\ pc' = [pc EXCEPT ![self] = "sc2"]
             /\ UNCHANGED << state, cstate, cexq, fut, nf, qact, qobs, fobs, 
                             mustReset, tokens, timed, grouped, ticks, stopFut, 
                             cstopFut, initialStep, eps, calls, mode, raised, 
                             obsSeen, stepsRun, stack, fact, newobs, skipped, 
                             fo, task, ctask >>

sc2(self) == /\ pc[self] = "sc2"
             /\ stack' = [stack EXCEPT ![self] = << [ procedure |->  "PushStep",
                                                      pc        |->  "sc3",
                                                      fact      |->  fact[self],
                                                      newobs    |->  newobs[self],
                                                      skipped   |->  skipped[self] ] >>
                                                  \o stack[self]]
             /\ fact' = [fact EXCEPT ![self] = 0]
             /\ newobs' = [newobs EXCEPT ![self] = 0]
             /\ skipped' = [skipped EXCEPT ![self] = FALSE]
             /\ pc' = [pc EXCEPT ![self] = "ps0"]
             /\ UNCHANGED << state, cstate, exq, cexq, fut, nf, qact, qobs, 
                             fobs, mustReset, tokens, timed, grouped, ticks, 
                             stopFut, cstopFut, initialStep, eps, calls, mode, 
                             raised, obsSeen, stepsRun, fo, task, ctask >>

sc3(self) == /\ pc[self] = "sc3"
             /\ IF ConnAllowed(cstate) \/ FALSE
                   THEN /\ cexq' = Append(cexq, "push_expected")
                   ELSE /\ TRUE
                        /\ cexq' = cexq
             /\ pc' = [pc EXCEPT ![self] = "sc9"]
             /\ UNCHANGED << state, cstate, exq, fut, nf, qact, qobs, fobs, 
                             mustReset, tokens, timed, grouped, ticks, stopFut, 
                             cstopFut, initialStep, eps, calls, mode, raised, 
                             obsSeen, stepsRun, stack, fact, newobs, skipped, 
                             fo, task, ctask >>

sc9(self) == /\ pc[self] = "sc9"
             /\ pc' = [pc EXCEPT ![self] = Head(stack[self]).pc]
             /\ stack' = [stack EXCEPT ![self] = Tail(stack[self])]
             /\ UNCHANGED << state, cstate, exq, cexq, fut, nf, qact, qobs, 
                             fobs, mustReset, tokens, timed, grouped, ticks, 
                             stopFut, cstopFut, initialStep, eps, calls, mode, 
                             raised, obsSeen, stepsRun, fact, newobs, skipped, 
                             fo, task, ctask >>

PushSched(self) == sc0(self) \/ sc1(self) \/ sc2(self) \/ sc3(self)
                      \/ sc9(self)

st0(self) == /\ pc[self] = "st0"
             /\ IF state = "RUNNING"
                   THEN /\ pc' = [pc EXCEPT ![self] = "st1"]
                        /\ UNCHANGED stopFut
                   ELSE /\ stopFut' = "done"
                        /\ pc' = [pc EXCEPT ![self] = "st2"]
             /\ UNCHANGED << state, cstate, exq, cexq, fut, nf, qact, qobs, 
                             fobs, mustReset, tokens, timed, grouped, ticks, 
                             cstopFut, initialStep, eps, calls, mode, raised, 
                             obsSeen, stepsRun, stack, fact, newobs, skipped, 
                             fo, task, ctask >>

st1(self) == /\ pc[self] = "st1"
             /\ state' = "STOPPING"
             /\ exq' = Append(exq, "stopping")
             /\ stopFut' = "pending"
             /\ pc' = [pc EXCEPT ![self] = "st2"]
             /\ UNCHANGED << cstate, cexq, fut, nf, qact, qobs, fobs, 
                             mustReset, tokens, timed, grouped, ticks, 
                             cstopFut, initialStep, eps, calls, mode, raised, 
                             obsSeen, stepsRun, stack, fact, newobs, skipped, 
                             fo, task, ctask >>

st2(self) == /\ pc[self] = "st2"
             /\ IF Fixed
                   THEN /\ mustReset' = TRUE
                        /\ pc' = [pc EXCEPT ![self] = "st3f"]
                   ELSE /\ pc' = [pc EXCEPT ![self] = "st3"]
                        /\ UNCHANGED mustReset
             /\ UNCHANGED << state, cstate, exq, cexq, fut, nf, qact, qobs, 
                             fobs, tokens, timed, grouped, ticks, stopFut, 
                             cstopFut, initialStep, eps, calls, mode, raised, 
                             obsSeen, stepsRun, stack, fact, newobs, skipped, 
                             fo, task, ctask >>

st3f(self) == /\ pc[self] = "st3f"
              /\ IF qact # <<>>
                    THEN /\ IF fut[Last(qact)] = "pending"
                               THEN /\ fut' = [fut EXCEPT ![Last(qact)] = "cancelled"]
                               ELSE /\ TRUE
                                    /\ fut' = fut
                    ELSE /\ TRUE
                         /\ fut' = fut
              /\ pc' = [pc EXCEPT ![self] = "st5"]
              /\ UNCHANGED << state, cstate, exq, cexq, nf, qact, qobs, fobs, 
                              mustReset, tokens, timed, grouped, ticks, 
                              stopFut, cstopFut, initialStep, eps, calls, mode, 
                              raised, obsSeen, stepsRun, stack, fact, newobs, 
                              skipped, fo, task, ctask >>

st3(self) == /\ pc[self] = "st3"
             /\ IF Len(qact) > 0
                   THEN /\ pc' = [pc EXCEPT ![self] = "st4"]
                   ELSE /\ pc' = [pc EXCEPT ![self] = "st5"]
             /\ UNCHANGED << state, cstate, exq, cexq, fut, nf, qact, qobs, 
                             fobs, mustReset, tokens, timed, grouped, ticks, 
                             stopFut, cstopFut, initialStep, eps, calls, mode, 
                             raised, obsSeen, stepsRun, stack, fact, newobs, 
                             skipped, fo, task, ctask >>

st4(self) == /\ pc[self] = "st4"
             /\ IF qact = <<>>
                   THEN /\ raised' = "IndexError"
                        /\ fut' = fut
                   ELSE /\ IF fut[Last(qact)] = "pending"
                              THEN /\ fut' = [fut EXCEPT ![Last(qact)] = "cancelled"]
                              ELSE /\ TRUE
                                   /\ fut' = fut
                        /\ UNCHANGED raised
             /\ pc' = [pc EXCEPT ![self] = "st5"]
             /\ UNCHANGED << state, cstate, exq, cexq, nf, qact, qobs, fobs, 
                             mustReset, tokens, timed, grouped, ticks, stopFut, 
                             cstopFut, initialStep, eps, calls, mode, obsSeen, 
                             stepsRun, stack, fact, newobs, skipped, fo, task, 
                             ctask >>

st5(self) == /\ pc[self] = "st5"
             /\ IF raised = ""
                   THEN /\ stopFut = "done"
                        /\ initialStep' = TRUE
                   ELSE /\ TRUE
                        /\ UNCHANGED initialStep
             /\ pc' = [pc EXCEPT ![self] = "st9"]
             /\ UNCHANGED << state, cstate, exq, cexq, fut, nf, qact, qobs, 
                             fobs, mustReset, tokens, timed, grouped, ticks, 
                             stopFut, cstopFut, eps, calls, mode, raised, 
                             obsSeen, stepsRun, stack, fact, newobs, skipped, 
                             fo, task, ctask >>

st9(self) == /\ pc[self] = "st9"
             /\ pc' = [pc EXCEPT ![self] = Head(stack[self]).pc]
             /\ stack' = [stack EXCEPT ![self] = Tail(stack[self])]
             /\ UNCHANGED << state, cstate, exq, cexq, fut, nf, qact, qobs, 
                             fobs, mustReset, tokens, timed, grouped, ticks, 
                             stopFut, cstopFut, initialStep, eps, calls, mode, 
                             raised, obsSeen, stepsRun, fact, newobs, skipped, 
                             fo, task, ctask >>

Stop(self) == st0(self) \/ st1(self) \/ st2(self) \/ st3f(self)
                 \/ st3(self) \/ st4(self) \/ st5(self) \/ st9(self)

sa0(self) == /\ pc[self] = "sa0"
             /\ stack' = [stack EXCEPT ![self] = << [ procedure |->  "Stop",
                                                      pc        |->  "sa1" ] >>
                                                  \o stack[self]]
             /\ pc' = [pc EXCEPT ![self] = "st0"]
             /\ UNCHANGED << state, cstate, exq, cexq, fut, nf, qact, qobs, 
                             fobs, mustReset, tokens, timed, grouped, ticks, 
                             stopFut, cstopFut, initialStep, eps, calls, mode, 
                             raised, obsSeen, stepsRun, fact, newobs, skipped, 
                             fo, task, ctask >>

sa1(self) == /\ pc[self] = "sa1"
             /\ IF raised = ""
                   THEN /\ mustReset' = FALSE
                        /\ qact' = <<>>
                        /\ nf' = nf + 1
                        /\ fut' = [fut EXCEPT ![nf'] = "pending"]
                        /\ qobs' = <<nf'>>
                        /\ fobs' = nf'
                        /\ tokens' = 0
                        /\ timed' = 0
                        /\ grouped' = 0
                        /\ ticks' = 0
                        /\ eps' = eps + 1
                        /\ obsSeen' = 0
                        /\ stepsRun' = 0
                        /\ state' = "READY"
                        /\ cstate' = "READY"
                        /\ pc' = [pc EXCEPT ![self] = "sa2"]
                   ELSE /\ pc' = [pc EXCEPT ![self] = "sa9"]
                        /\ UNCHANGED << state, cstate, fut, nf, qact, qobs, 
                                        fobs, mustReset, tokens, timed, 
                                        grouped, ticks, eps, obsSeen, stepsRun >>
             /\ UNCHANGED << exq, cexq, stopFut, cstopFut, initialStep, calls, 
                             mode, raised, stack, fact, newobs, skipped, fo, 
                             task, ctask >>

sa2(self) == /\ pc[self] = "sa2"
             /\ state' = "RUNNING"
             /\ cstate' = "RUNNING"
             /\ tokens' = NumTokens
             /\ pc' = [pc EXCEPT ![self] = "sa3"]
             /\ UNCHANGED << exq, cexq, fut, nf, qact, qobs, fobs, mustReset, 
                             timed, grouped, ticks, stopFut, cstopFut, 
                             initialStep, eps, calls, mode, raised, obsSeen, 
                             stepsRun, stack, fact, newobs, skipped, fo, task, 
                             ctask >>

sa3(self) == /\ pc[self] = "sa3"
             /\ IF NodeAllowed(state) \/ FALSE
                   THEN /\ exq' = Append(exq, "push_sched")
                   ELSE /\ TRUE
                        /\ exq' = exq
             /\ pc' = [pc EXCEPT ![self] = "sa9"]
             /\ UNCHANGED << state, cstate, cexq, fut, nf, qact, qobs, fobs, 
                             mustReset, tokens, timed, grouped, ticks, stopFut, 
                             cstopFut, initialStep, eps, calls, mode, raised, 
                             obsSeen, stepsRun, stack, fact, newobs, skipped, 
                             fo, task, ctask >>

sa9(self) == /\ pc[self] = "sa9"
             /\ pc' = [pc EXCEPT ![self] = Head(stack[self]).pc]
             /\ stack' = [stack EXCEPT ![self] = Tail(stack[self])]
             /\ UNCHANGED << state, cstate, exq, cexq, fut, nf, qact, qobs, 
                             fobs, mustReset, tokens, timed, grouped, ticks, 
                             stopFut, cstopFut, initialStep, eps, calls, mode, 
                             raised, obsSeen, stepsRun, fact, newobs, skipped, 
                             fo, task, ctask >>

Start(self) == sa0(self) \/ sa1(self) \/ sa2(self) \/ sa3(self)
                  \/ sa9(self)

ru0(self) == /\ pc[self] = "ru0"
             /\ fo' = [fo EXCEPT ![self] = Head(qobs)]
             /\ qobs' = Tail(qobs)
             /\ pc' = [pc EXCEPT ![self] = "ru1"]
             /\ UNCHANGED << state, cstate, exq, cexq, fut, nf, qact, fobs, 
                             mustReset, tokens, timed, grouped, ticks, stopFut, 
                             cstopFut, initialStep, eps, calls, mode, raised, 
                             obsSeen, stepsRun, stack, fact, newobs, skipped, 
                             task, ctask >>

ru1(self) == /\ pc[self] = "ru1"
             /\ fut[fo[self]] = "set"
             /\ initialStep' = FALSE
             /\ obsSeen' = obsSeen + 1
             /\ pc' = [pc EXCEPT ![self] = "ru9"]
             /\ UNCHANGED << state, cstate, exq, cexq, fut, nf, qact, qobs, 
                             fobs, mustReset, tokens, timed, grouped, ticks, 
                             stopFut, cstopFut, eps, calls, mode, raised, 
                             stepsRun, stack, fact, newobs, skipped, fo, task, 
                             ctask >>

ru9(self) == /\ pc[self] = "ru9"
             /\ pc' = [pc EXCEPT ![self] = Head(stack[self]).pc]
             /\ fo' = [fo EXCEPT ![self] = Head(stack[self]).fo]
             /\ stack' = [stack EXCEPT ![self] = Tail(stack[self])]
             /\ UNCHANGED << state, cstate, exq, cexq, fut, nf, qact, qobs, 
                             fobs, mustReset, tokens, timed, grouped, ticks, 
                             stopFut, cstopFut, initialStep, eps, calls, mode, 
                             raised, obsSeen, stepsRun, fact, newobs, skipped, 
                             task, ctask >>

RunUntilSup(self) == ru0(self) \/ ru1(self) \/ ru9(self)

rs0(self) == /\ pc[self] = "rs0"
             /\ IF ~initialStep
                   THEN /\ pc' = [pc EXCEPT ![self] = "rs1"]
                   ELSE /\ pc' = [pc EXCEPT ![self] = "rs9"]
             /\ UNCHANGED << state, cstate, exq, cexq, fut, nf, qact, qobs, 
                             fobs, mustReset, tokens, timed, grouped, ticks, 
                             stopFut, cstopFut, initialStep, eps, calls, mode, 
                             raised, obsSeen, stepsRun, stack, fact, newobs, 
                             skipped, fo, task, ctask >>

rs1(self) == /\ pc[self] = "rs1"
             /\ IF qact = <<>>
                   THEN /\ raised' = "IndexError(run_supervisor)"
                        /\ fut' = fut
                   ELSE /\ IF fut[Last(qact)] = "pending"
                              THEN /\ fut' = [fut EXCEPT ![Last(qact)] = "set"]
                                   /\ UNCHANGED raised
                              ELSE /\ raised' = "InvalidState(run_supervisor)"
                                   /\ fut' = fut
             /\ pc' = [pc EXCEPT ![self] = "rs9"]
             /\ UNCHANGED << state, cstate, exq, cexq, nf, qact, qobs, fobs, 
                             mustReset, tokens, timed, grouped, ticks, stopFut, 
                             cstopFut, initialStep, eps, calls, mode, obsSeen, 
                             stepsRun, stack, fact, newobs, skipped, fo, task, 
                             ctask >>

rs9(self) == /\ pc[self] = "rs9"
             /\ pc' = [pc EXCEPT ![self] = Head(stack[self]).pc]
             /\ stack' = [stack EXCEPT ![self] = Tail(stack[self])]
             /\ UNCHANGED << state, cstate, exq, cexq, fut, nf, qact, qobs, 
                             fobs, mustReset, tokens, timed, grouped, ticks, 
                             stopFut, cstopFut, initialStep, eps, calls, mode, 
                             raised, obsSeen, stepsRun, fact, newobs, skipped, 
                             fo, task, ctask >>

RunSup(self) == rs0(self) \/ rs1(self) \/ rs9(self)

u0 == /\ pc["user"] = "u0"
      /\ IF calls < MaxCalls /\ raised = ""
            THEN /\ calls' = calls + 1
                 /\ \/ /\ mode \in {"idle", "run"}
                       /\ mode' = "run"
                       /\ IF initialStep
                             THEN /\ stack' = [stack EXCEPT !["user"] = << [ procedure |->  "Start",
                                                                             pc        |->  "ur1" ] >>
                                                                         \o stack["user"]]
                                  /\ pc' = [pc EXCEPT !["user"] = "sa0"]
                             ELSE /\ pc' = [pc EXCEPT !["user"] = "ur1"]
                                  /\ stack' = stack
                    \/ /\ mode' = "step"
                       /\ stack' = [stack EXCEPT !["user"] = << [ procedure |->  "Start",
                                                                  pc        |->  "ue1" ] >>
                                                              \o stack["user"]]
                       /\ pc' = [pc EXCEPT !["user"] = "sa0"]
                    \/ /\ mode = "step"
                       /\ stack' = [stack EXCEPT !["user"] = << [ procedure |->  "RunSup",
                                                                  pc        |->  "us1" ] >>
                                                              \o stack["user"]]
                       /\ pc' = [pc EXCEPT !["user"] = "rs0"]
                       /\ mode' = mode
                    \/ /\ mode' = "idle"
                       /\ stack' = [stack EXCEPT !["user"] = << [ procedure |->  "Stop",
                                                                  pc        |->  "u0" ] >>
                                                              \o stack["user"]]
                       /\ pc' = [pc EXCEPT !["user"] = "st0"]
            ELSE /\ pc' = [pc EXCEPT !["user"] = "u9"]
                 /\ UNCHANGED << calls, mode, stack >>
      /\ UNCHANGED << state, cstate, exq, cexq, fut, nf, qact, qobs, fobs, 
                      mustReset, tokens, timed, grouped, ticks, stopFut, 
                      cstopFut, initialStep, eps, raised, obsSeen, stepsRun, 
                      fact, newobs, skipped, fo, task, ctask >>

ur1 == /\ pc["user"] = "ur1"
       /\ IF raised = ""
             THEN /\ stack' = [stack EXCEPT !["user"] = << [ procedure |->  "RunUntilSup",
                                                             pc        |->  "ur2",
                                                             fo        |->  fo["user"] ] >>
                                                         \o stack["user"]]
                  /\ fo' = [fo EXCEPT !["user"] = 0]
                  /\ pc' = [pc EXCEPT !["user"] = "ru0"]
             ELSE /\ pc' = [pc EXCEPT !["user"] = "ur2"]
                  /\ UNCHANGED << stack, fo >>
       /\ UNCHANGED << state, cstate, exq, cexq, fut, nf, qact, qobs, fobs, 
                       mustReset, tokens, timed, grouped, ticks, stopFut, 
                       cstopFut, initialStep, eps, calls, mode, raised, 
                       obsSeen, stepsRun, fact, newobs, skipped, task, ctask >>

ur2 == /\ pc["user"] = "ur2"
       /\ IF raised = ""
             THEN /\ stack' = [stack EXCEPT !["user"] = << [ procedure |->  "RunSup",
                                                             pc        |->  "u0" ] >>
                                                         \o stack["user"]]
                  /\ pc' = [pc EXCEPT !["user"] = "rs0"]
             ELSE /\ pc' = [pc EXCEPT !["user"] = "u0"]
                  /\ stack' = stack
       /\ UNCHANGED << state, cstate, exq, cexq, fut, nf, qact, qobs, fobs, 
                       mustReset, tokens, timed, grouped, ticks, stopFut, 
                       cstopFut, initialStep, eps, calls, mode, raised, 
                       obsSeen, stepsRun, fact, newobs, skipped, fo, task, 
                       ctask >>

ue1 == /\ pc["user"] = "ue1"
       /\ IF raised = ""
             THEN /\ stack' = [stack EXCEPT !["user"] = << [ procedure |->  "RunUntilSup",
                                                             pc        |->  "u0",
                                                             fo        |->  fo["user"] ] >>
                                                         \o stack["user"]]
                  /\ fo' = [fo EXCEPT !["user"] = 0]
                  /\ pc' = [pc EXCEPT !["user"] = "ru0"]
             ELSE /\ pc' = [pc EXCEPT !["user"] = "u0"]
                  /\ UNCHANGED << stack, fo >>
       /\ UNCHANGED << state, cstate, exq, cexq, fut, nf, qact, qobs, fobs, 
                       mustReset, tokens, timed, grouped, ticks, stopFut, 
                       cstopFut, initialStep, eps, calls, mode, raised, 
                       obsSeen, stepsRun, fact, newobs, skipped, task, ctask >>

us1 == /\ pc["user"] = "us1"
       /\ IF raised = ""
             THEN /\ stack' = [stack EXCEPT !["user"] = << [ procedure |->  "RunUntilSup",
                                                             pc        |->  "u0",
                                                             fo        |->  fo["user"] ] >>
                                                         \o stack["user"]]
                  /\ fo' = [fo EXCEPT !["user"] = 0]
                  /\ pc' = [pc EXCEPT !["user"] = "ru0"]
             ELSE /\ pc' = [pc EXCEPT !["user"] = "u0"]
                  /\ UNCHANGED << stack, fo >>
       /\ UNCHANGED << state, cstate, exq, cexq, fut, nf, qact, qobs, fobs, 
                       mustReset, tokens, timed, grouped, ticks, stopFut, 
                       cstopFut, initialStep, eps, calls, mode, raised, 
                       obsSeen, stepsRun, fact, newobs, skipped, task, ctask >>

u9 == /\ pc["user"] = "u9"
      /\ TRUE
      /\ pc' = [pc EXCEPT !["user"] = "Done"]
      /\ UNCHANGED << state, cstate, exq, cexq, fut, nf, qact, qobs, fobs, 
                      mustReset, tokens, timed, grouped, ticks, stopFut, 
                      cstopFut, initialStep, eps, calls, mode, raised, obsSeen, 
                      stepsRun, stack, fact, newobs, skipped, fo, task, ctask >>

User == u0 \/ ur1 \/ ur2 \/ ue1 \/ us1 \/ u9

w0 == /\ pc["sup"] = "w0"
      /\ exq # <<>>
      /\ task' = Head(exq)
      /\ exq' = Tail(exq)
      /\ pc' = [pc EXCEPT !["sup"] = "w1"]
      /\ UNCHANGED << state, cstate, cexq, fut, nf, qact, qobs, fobs, 
                      mustReset, tokens, timed, grouped, ticks, stopFut, 
                      cstopFut, initialStep, eps, calls, mode, raised, obsSeen, 
                      stepsRun, stack, fact, newobs, skipped, fo, ctask >>

w1 == /\ pc["sup"] = "w1"
      /\ IF task = "push_sched"
            THEN /\ stack' = [stack EXCEPT !["sup"] = << [ procedure |->  "PushSched",
                                                           pc        |->  "w0" ] >>
                                                       \o stack["sup"]]
                 /\ pc' = [pc EXCEPT !["sup"] = "sc0"]
                 /\ UNCHANGED << fact, newobs, skipped >>
            ELSE /\ IF task = "push_step"
                       THEN /\ stack' = [stack EXCEPT !["sup"] = << [ procedure |->  "PushStep",
                                                                      pc        |->  "w0",
                                                                      fact      |->  fact["sup"],
                                                                      newobs    |->  newobs["sup"],
                                                                      skipped   |->  skipped["sup"] ] >>
                                                                  \o stack["sup"]]
                            /\ fact' = [fact EXCEPT !["sup"] = 0]
                            /\ newobs' = [newobs EXCEPT !["sup"] = 0]
                            /\ skipped' = [skipped EXCEPT !["sup"] = FALSE]
                            /\ pc' = [pc EXCEPT !["sup"] = "ps0"]
                       ELSE /\ Assert(task = "stopping", 
                                      "Failure of assertion at line 192, column 11.")
                            /\ pc' = [pc EXCEPT !["sup"] = "ws1"]
                            /\ UNCHANGED << stack, fact, newobs, skipped >>
      /\ UNCHANGED << state, cstate, exq, cexq, fut, nf, qact, qobs, fobs, 
                      mustReset, tokens, timed, grouped, ticks, stopFut, 
                      cstopFut, initialStep, eps, calls, mode, raised, obsSeen, 
                      stepsRun, fo, task, ctask >>

ws1 == /\ pc["sup"] = "ws1"
       /\ IF cstate = "RUNNING"
             THEN /\ cstate' = "STOPPING"
                  /\ cexq' = Append(cexq, "stopping")
                  /\ cstopFut' = "pending"
             ELSE /\ cstopFut' = "done"
                  /\ UNCHANGED << cstate, cexq >>
       /\ pc' = [pc EXCEPT !["sup"] = "ws2"]
       /\ UNCHANGED << state, exq, fut, nf, qact, qobs, fobs, mustReset, 
                       tokens, timed, grouped, ticks, stopFut, initialStep, 
                       eps, calls, mode, raised, obsSeen, stepsRun, stack, 
                       fact, newobs, skipped, fo, task, ctask >>

ws2 == /\ pc["sup"] = "ws2"
       /\ cstopFut = "done"
       /\ pc' = [pc EXCEPT !["sup"] = "ws3"]
       /\ UNCHANGED << state, cstate, exq, cexq, fut, nf, qact, qobs, fobs, 
                       mustReset, tokens, timed, grouped, ticks, stopFut, 
                       cstopFut, initialStep, eps, calls, mode, raised, 
                       obsSeen, stepsRun, stack, fact, newobs, skipped, fo, 
                       task, ctask >>

ws3 == /\ pc["sup"] = "ws3"
       /\ state' = "STOPPED"
       /\ stopFut' = "done"
       /\ pc' = [pc EXCEPT !["sup"] = "w0"]
       /\ UNCHANGED << cstate, exq, cexq, fut, nf, qact, qobs, fobs, mustReset, 
                       tokens, timed, grouped, ticks, cstopFut, initialStep, 
                       eps, calls, mode, raised, obsSeen, stepsRun, stack, 
                       fact, newobs, skipped, fo, task, ctask >>

Sup == w0 \/ w1 \/ ws1 \/ ws2 \/ ws3

c0 == /\ pc["conn"] = "c0"
      /\ cexq # <<>>
      /\ ctask' = Head(cexq)
      /\ cexq' = Tail(cexq)
      /\ pc' = [pc EXCEPT !["conn"] = "c1"]
      /\ UNCHANGED << state, cstate, exq, fut, nf, qact, qobs, fobs, mustReset, 
                      tokens, timed, grouped, ticks, stopFut, cstopFut, 
                      initialStep, eps, calls, mode, raised, obsSeen, stepsRun, 
                      stack, fact, newobs, skipped, fo, task >>

c1 == /\ pc["conn"] = "c1"
      /\ IF ctask = "push_expected"
            THEN /\ grouped' = grouped + 1
                 /\ pc' = [pc EXCEPT !["conn"] = "c2"]
                 /\ UNCHANGED << cstate, cstopFut >>
            ELSE /\ Assert(ctask = "stopping", 
                           "Failure of assertion at line 212, column 11.")
                 /\ cstate' = "STOPPED"
                 /\ cstopFut' = "done"
                 /\ pc' = [pc EXCEPT !["conn"] = "c0"]
                 /\ UNCHANGED grouped
      /\ UNCHANGED << state, exq, cexq, fut, nf, qact, qobs, fobs, mustReset, 
                      tokens, timed, ticks, stopFut, initialStep, eps, calls, 
                      mode, raised, obsSeen, stepsRun, stack, fact, newobs, 
                      skipped, fo, task, ctask >>

c2 == /\ pc["conn"] = "c2"
      /\ IF NodeAllowed(state) \/ FALSE
            THEN /\ exq' = Append(exq, "push_step")
            ELSE /\ TRUE
                 /\ exq' = exq
      /\ pc' = [pc EXCEPT !["conn"] = "c0"]
      /\ UNCHANGED << state, cstate, cexq, fut, nf, qact, qobs, fobs, 
                      mustReset, tokens, timed, grouped, ticks, stopFut, 
                      cstopFut, initialStep, eps, calls, mode, raised, obsSeen, 
                      stepsRun, stack, fact, newobs, skipped, fo, task, ctask >>

Conn == c0 \/ c1 \/ c2

Next == User \/ Sup \/ Conn
           \/ (\E self \in ProcSet:  \/ PushStep(self) \/ PushSched(self)
                                     \/ Stop(self) \/ Start(self)
                                     \/ RunUntilSup(self) \/ RunSup(self))

Spec == /\ Init /\ [][Next]_vars
        /\ /\ WF_vars(User)
           /\ WF_vars(Start("user"))
           /\ WF_vars(RunUntilSup("user"))
           /\ WF_vars(RunSup("user"))
           /\ WF_vars(Stop("user"))
        /\ WF_vars(Sup) /\ WF_vars(PushSched("sup")) /\ WF_vars(PushStep("sup"))
        /\ WF_vars(Conn)

\* END TRANSLATION 
=============================================================================
