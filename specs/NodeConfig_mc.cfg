SPECIFICATION Spec
CONSTANTS
  Nodes = {"a", "b", "c"}
  Delays = {0, 2}
  Dists = {"D1"}
  MaxLen = 5
VIEW ViewNoHist
CONSTRAINT SmallConns
INVARIANT PhaseIsLongestPath
INVARIANT LoopIffCycle
INVARIANT KeysUnique
CHECK_DEADLOCK FALSE
