SPECIFICATION SSpec
CHECK_DEADLOCK FALSE
