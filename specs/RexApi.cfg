SPECIFICATION Spec
CONSTANTS
  MaxCalls = 3
  MaxRU = 4
  Step0 = 0
INVARIANT StepIsPartitionCount
INVARIANT Emit
CHECK_DEADLOCK FALSE
