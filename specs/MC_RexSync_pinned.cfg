SPECIFICATION SpecT
CONSTANTS
  Fixed = FALSE
  NumTokens = 2
  MaxTicks = 3
  MaxCalls = 4
INVARIANT NoRaise
INVARIANT Handshake
INVARIANT StoppedMeansQuiet
CONSTRAINT Bound
