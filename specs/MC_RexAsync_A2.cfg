SPECIFICATION SpecT
CONSTANTS
  Cfg <- CfgA
  NumTokens = 2
  defaultInitValue = 0
  Hist <- HistA
  MaxTick = 2
CONSTRAINT Bound
INVARIANT NoRaise
INVARIANT ExactlyOnce
INVARIANT EpisodeIsolation
INVARIANT MessagesOrdered
ACTION_CONSTRAINT SegmentAtomic
