SPECIFICATION SpecT
CONSTANTS
  Cfg <- CfgA
  NumTokens = 2
  defaultInitValue = 0
  Hist <- HistA
CONSTRAINT Bound
INVARIANT NoRaise
INVARIANT ExactlyOnce
INVARIANT EpisodeIsolation
INVARIANT MessagesOrdered
INVARIANT RecordsScheduleIndependent
