SPECIFICATION SpecT
CONSTANTS
  Cfg <- CfgA
  NumTokens = 2
  defaultInitValue = 0
  Hist <- HistA
  MaxTick = 3
CONSTRAINT Bound
INVARIANT NoRaise
INVARIANT ExactlyOnce
INVARIANT EpisodeIsolation
INVARIANT MessagesOrdered
INVARIANT RecordsScheduleIndependent
ACTION_CONSTRAINT SegmentAtomic
