SPECIFICATION RSpec
CHECK_DEADLOCK FALSE
