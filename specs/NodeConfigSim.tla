---------------------------- MODULE NodeConfigSim ----------------------------
(***************************************************************************)
(* NodeConfig for TLC's simulator.  The simulator chooses uniformly among   *)
(* the successor STATES; Connect has hundreds of parameter combinations,    *)
(* the setters a dozen, so plain simulation of NodeConfig hardly ever       *)
(* exercises set_delay on a connection or a round trip (measured: 1395      *)
(* connects, 36 node setters, 0 connection setters in 1050 states).  Here   *)
(* every operation takes two steps: Pick chooses the KIND of the next       *)
(* operation (uniformly among the enabled kinds), Do performs one operation *)
(* of that kind with any parameters.  Same actions, same history variable.  *)
(***************************************************************************)
EXTENDS NodeConfig

VARIABLE kind
svars == <<ndelay, ndist, conns, hist, kind>>

Kinds == {"connect", "reconnect", "setnode", "setconn", "roundtrip"}
KindEnabled(k) ==
  CASE k = "connect" -> \E dst, src \in Nodes : src # dst /\ ~\E c \in conns : c.src = src /\ c.dst = dst
    [] k = "reconnect" -> conns # {}
    [] k = "setnode" -> TRUE
    [] k = "setconn" -> conns # {}
    [] k = "roundtrip" -> \A n \in Nodes : ~Loop(n)

SimInit == Init /\ kind = "pick"
Pick == /\ kind = "pick" /\ Len(hist) < MaxLen
        /\ kind' \in {k \in Kinds : KindEnabled(k)}
        /\ UNCHANGED vars
Do == /\ kind # "pick" /\ kind' = "pick"
      /\ CASE kind = "connect" -> \E dst, src \in Nodes, skip, shadow, blocking \in BOOLEAN, d \in Delays, dist \in Dists, w \in 1..2 :
                                      Connect(dst, src, skip, d, dist, shadow, w, blocking)
           [] kind = "reconnect" -> \E c \in conns, skip, blocking \in BOOLEAN, d \in Delays, dist \in Dists, w \in 1..2 : Reconnect(c, skip, d, dist, w, blocking)
           [] kind = "setnode" -> \E n \in Nodes, dist \in Dists \cup {"keep"}, d \in Delays \cup {-1} : SetNodeDelay(n, dist, d)
           [] kind = "setconn" -> \E c \in conns, dist \in Dists \cup {"keep"}, d \in Delays \cup {-1} : SetConnDelay(c, dist, d)
           [] kind = "roundtrip" -> RoundTrip
SimSpec == SimInit /\ [][Pick \/ Do]_svars
=============================================================================
