------------------------------- MODULE SolversTrace -------------------------------
(* Trace validation of real CEM / evolutionary-strategy runs against the C18 clauses of Solvers.tla (Part 2). *)
EXTENDS Integers, Sequences, FiniteSets, TLC, Json, IOUtils, TLCExt
NaN == -1
Inf == 1000000
MinSet(S) == CHOOSE x \in S : \A y \in S : x <= y
Traces == JsonDeserialize(IOEnv.TRACE_FILE)
VARIABLES tid, fin
tvars == <<tid, fin>>
T == Traces[tid]
NoErr == <<>>
Err(clause, at, x, got) == [clause |-> clause, at |-> at, exp |-> x, got |-> got]

(* T.iters[k] = [losses |-> <<int or NaN>>, inbounds |-> <<BOOLEAN>>, best |-> int or Inf, member_ok |-> BOOLEAN]
   losses are scaled integers *)
TraceErr(t) ==
  LET K == Len(t.iters)
      seenUpTo(k) == UNION {{t.iters[j].losses[i] : i \in 1..Len(t.iters[j].losses)} : j \in 1..k}
      finUpTo(k) == {l \in seenUpTo(k) : l # NaN}
      expBest(k) == IF finUpTo(k) = {} THEN Inf ELSE MinSet(finUpTo(k))
      badBounds == {k \in 1..K : \E i \in 1..Len(t.iters[k].inbounds) : ~t.iters[k].inbounds[i]}
      badBest == {k \in 1..K : t.iters[k].best # expBest(k)}
      badMono == {k \in 2..K : t.iters[k].best > t.iters[k - 1].best}
      badMember == {k \in 1..K : expBest(k) < Inf /\ ~t.iters[k].member_ok}
  IN IF badBounds # {} THEN Err("CandidateWithinBounds", <<CHOOSE k \in badBounds : TRUE>>, "all candidates inside [u_min, u_max]", "violated")
     ELSE IF badMono # {} THEN LET k == CHOOSE k \in badMono : TRUE IN Err("BestNeverIncreases", <<k>>, t.iters[k - 1].best, t.iters[k].best)
     ELSE IF badBest # {} THEN LET k == CHOOSE k \in badBest : \A j \in badBest : k <= j IN Err("BestIsMinFiniteSoFar", <<k>>, expBest(k), t.iters[k].best)
     ELSE IF badMember # {} THEN Err("BestMemberAttainsIt", <<CHOOSE k \in badMember : TRUE>>, "a seen candidate with the best loss", "not found")
     ELSE NoErr

Verdict(e) ==
  PrintT("VERDICT|" \o ToString(tid) \o "|" \o T.id \o "|" \o (IF e = NoErr THEN "accept" ELSE "reject") \o "|"
         \o (IF e = NoErr THEN "-" ELSE e.clause) \o "|" \o ToString(e))
TInit == tid = 1 /\ fin = FALSE
TNext == /\ ~fin /\ Verdict(TraceErr(T))
         /\ IF tid < Len(Traces) THEN tid' = tid + 1 /\ fin' = FALSE ELSE fin' = TRUE /\ tid' = tid
TSpec == TInit /\ [][TNext]_tvars
=============================================================================
