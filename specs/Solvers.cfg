SPECIFICATION MSpec
CONSTANTS
  N = 3
  E = 1
  Losses = {0, 1, 2}
  MaxIt = 2
INVARIANT BestIsMinFiniteSoFar
INVARIANT BestMemberAttainsIt
INVARIANT NaNNeverBestWhileFiniteExists
INVARIANT NaNEliteOnlyIfAllFiniteAre
INVARIANT Emit
PROPERTY BestNeverIncreases
CHECK_DEADLOCK FALSE
