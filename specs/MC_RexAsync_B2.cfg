SPECIFICATION SpecT
CONSTANTS
  Cfg <- CfgB
  NumTokens = 2
  defaultInitValue = 0
  Hist <- HistB
  MaxTick = 2
CONSTRAINT Bound
INVARIANT NoRaise
INVARIANT ExactlyOnce
INVARIANT EpisodeIsolation
INVARIANT MessagesOrdered
ACTION_CONSTRAINT SegmentAtomic
