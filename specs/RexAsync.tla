------------------------------- MODULE RexAsync -------------------------------
(***************************************************************************)
(* The threaded runtime of rex (rex/asynchronous.py) under the simulated    *)
(* clock, implementation-shaped: one process per worker thread (every node  *)
(* wrapper, every connection wrapper) plus the user thread; one procedure    *)
(* per task function / inlined helper; one label per SCHEDULING POINT of     *)
(* the coarse gate (harness/gate.py with deque_points = False):              *)
(*      worker dequeue | lock acquisition (_submit, _startup, _stop,         *)
(*      connection.stop) | Future.set_result / cancel / result               *)
(* Everything a thread does between two of its points is one atomic step     *)
(* (that is what the gate guarantees), so deque operations, state reads and  *)
(* local arithmetic are folded into the label that follows the point.        *)
(*                                                                         *)
(* Data are real: time stamps are computed as the code computes them         *)
(* (schedule, FREQUENCY drift, blocking count, has_ts_in_future, LATEST /    *)
(* BUFFER / skip tie, FIFO clamp); delays come from the constant streams     *)
(* Cfg.cstream / Cfg.mstream; payloads are abstracted to sequence numbers.   *)
(* NumTokens is a constant (10 in rex).                                      *)
(*                                                                         *)
(* History variables (read by invariants only): recSteps, recMsgs, execd.    *)
(* Checked (MC_RexAsync): NoStall (TLC deadlock check while the user is      *)
(* inside a call), ExactlyOnce, EpisodeIsolation, and schedule independence  *)
(* of the records over ALL interleavings (terminal records are prefix-       *)
(* compatible).  Bound to the code by RexAsyncTrace (the gate's choice list  *)
(* of real executions must be a behaviour of this specification).            *)
(***************************************************************************)
EXTENDS Integers, Sequences, FiniteSets, TLC

CONSTANTS Cfg,        \* [nodes |-> [n |-> [period, delay, advance, freq, ins (seq of conn ids, node.inputs order), outs (seq, node.outputs order)]],
                      \*  conns |-> [x |-> [src, dst, blocking, skip, buffer, window, delay]], sup |-> n,
                      \*  cstream |-> [n |-> seq of computation delays], mstream |-> [x |-> seq of communication delays],
                      \*  order |-> seq of node names (AsyncGraph._async_nodes order)]
          NumTokens,
          Hist        \* user call history: sequence of "reset" / "step" / "run" / "stop"

Nodes == DOMAIN Cfg.nodes
Conns == DOMAIN Cfg.conns
NodeC(n) == Cfg.nodes[n]
ConnC(x) == Cfg.conns[x]
Sup == Cfg.sup

Max2(a, b) == IF a >= b THEN a ELSE b
MaxSet(S) == CHOOSE x \in S : \A y \in S : x >= y
SeqToSet(s) == {s[i] : i \in 1..Len(s)}
LastN(s, n) == IF Len(s) <= n THEN s ELSE SubSeq(s, Len(s) - n + 1, Len(s))
Last(s) == s[Len(s)]

RECURSIVE PhaseOf(_)
PhaseOf(n) ==
  LET ins == {x \in Conns : ConnC(x).dst = n /\ ~ConnC(x).skip}
  IN IF ins = {} THEN 0 ELSE MaxSet({0} \cup {PhaseOf(ConnC(x).src) + NodeC(ConnC(x).src).delay + ConnC(x).delay : x \in ins})
Ph == [n \in Nodes |-> PhaseOf(n)]
ConnPhase(x) == Ph[ConnC(x).src] + NodeC(ConnC(x).src).delay + ConnC(x).delay
BInsSeq(n) == SelectSeq(NodeC(n).ins, LAMBDA x : ConnC(x).blocking)
NBInsSeq(n) == SelectSeq(NodeC(n).ins, LAMBDA x : ~ConnC(x).blocking)

(* push_expected_blocking: number of messages for receiver tick N *)
BlockCnt(x, N) ==
  LET co == ConnC(x)  Po == NodeC(co.src).period  Pi == NodeC(co.dst).period
      thigh == N * Pi + Ph[co.dst]  tlow == thigh - Pi
      T(i) == i * Po + Ph[co.src]
      imax == (thigh - Ph[co.src]) \div Po
      ok(i) == IF N = 0 THEN IF co.skip THEN T(i) < thigh ELSE T(i) <= thigh
               ELSE IF co.skip THEN tlow <= T(i) /\ T(i) < thigh ELSE tlow < T(i) /\ T(i) <= thigh
  IN Cardinality({i \in 0..imax : ok(i)})

(* push_expected_nonblocking: how many of the announced time stamps (seq, recv) belong to a step starting at ts *)
Elig(x, m, ts) ==
  LET co == ConnC(x)
      arrived == m[2] < ts \/ (m[2] = ts /\ ~co.skip)
  IN IF co.buffer THEN arrived /\ m[1] * NodeC(co.src).period + ConnPhase(x) <= ts ELSE arrived
RECURSIVE CountPrefix(_, _, _)
CountPrefix(x, s, ts) == IF s = <<>> THEN 0 ELSE IF Elig(x, Head(s), ts) THEN 1 + CountPrefix(x, Tail(s), ts) ELSE 0
HasFuture(s, ts) == \E i \in 1..Len(s) : s[i][2] > ts

NodeAllowed(st) == st \in {"READY", "STARTING", "READY_TO_START", "RUNNING"}
ConnAllowed(st) == st \in {"READY", "RUNNING"}
Task(nm, a, b, c) == [name |-> nm, seq |-> a, ts |-> b, eps |-> c]

(* --algorithm RexAsync {
variables
  \* ---- node wrappers ----
  nstate = [n \in Nodes |-> "STOPPED"],
  exq = [n \in Nodes |-> <<>>],              \* executor FIFO
  neps = [n \in Nodes |-> -1],
  tick = [n \in Nodes |-> 0],
  psched = [n \in Nodes |-> 0],
  qtick = [n \in Nodes |-> 0],
  qsched = [n \in Nodes |-> <<>>],           \* <<tick, ts_scheduled>>
  qendprev = [n \in Nodes |-> <<>>],
  qstart = [n \in Nodes |-> <<>>],           \* <<tick, ts_start, ts_end, sched, tsmax, psb>>
  sidx = [n \in Nodes |-> 0],
  stopFut = [n \in Nodes |-> "none"],        \* future of the node's _stopping / _starting task: none / pending / done
  startFut = [n \in Nodes |-> "none"],
  \* ---- connection wrappers ----
  cstate = [x \in Conns |-> "STOPPED"],
  cexq = [x \in Conns |-> <<>>],
  ctick = [x \in Conns |-> 0],
  prevrecv = [x \in Conns |-> 0],
  midx = [x \in Conns |-> 0],
  qnext = [x \in Conns |-> <<>>],            \* q_ts_next_step <<tick, ts>>
  qtsin = [x \in Conns |-> <<>>],            \* q_ts_input <<seq, recv>>
  qzipd = [x \in Conns |-> <<>>],            \* q_zip_delay
  qzipm = [x \in Conns |-> <<>>],            \* q_zip_msgs <<seq, sent>>
  qmsgs = [x \in Conns |-> <<>>],            \* q_msgs <<seq, sent, recv>>
  qexpsel = [x \in Conns |-> <<>>],          \* q_expected_select <<ts, num>>
  qexptm = [x \in Conns |-> <<>>],           \* q_expected_ts_max
  qtsmax = [x \in Conns |-> <<>>],
  qgrouped = [x \in Conns |-> <<>>],
  cstopFut = [x \in Conns |-> "none"],
  \* ---- synchronizer ----
  fut = [i \in 1..60 |-> "none"],
  nf = 0, qact = <<>>, qobs = <<>>, fobs = 0, mustReset = FALSE,
  \* ---- user ----
  initialStep = TRUE, hi = 1, raised = "",
  \* ---- history (never read by the algorithm) ----
  recSteps = [n \in Nodes |-> <<>>], recMsgs = [x \in Conns |-> <<>>], execd = [n \in Nodes |-> <<>>], episode = 0, skipCnt = 0;

define {
  HasAllTsMax(n) == \A i \in 1..Len(BInsSeq(n)) : qtsmax[BInsSeq(n)[i]] # <<>>
  HasAllGrouped(n) == \A i \in 1..Len(NodeC(n).ins) : qgrouped[NodeC(n).ins[i]] # <<>>
}

macro SubmitNode(n, t, forced) { if (NodeAllowed(nstate[n]) \/ forced) { exq[n] := Append(exq[n], t) } }
macro SubmitConn(x, t, forced) { if (ConnAllowed(cstate[x]) \/ forced) { cexq[x] := Append(cexq[x], t) } }

\* =================================================================================================
\* node worker: push_step (inline from push_phase_shift, or as a task)
\* =================================================================================================
procedure PushStep()
  variables st = <<>>, k = 0, fact = 0, newobs = 0, skippedStep = FALSE, oi = 1;
{
pst0: if (qstart[self] # <<>> /\ HasAllGrouped(self)) {
        st := Head(qstart[self]); qstart[self] := Tail(qstart[self]);
        k := st[1];
        \* pop the grouped messages of every input (q_grouped.popleft): their content goes into the step's input windows
        qgrouped := [x \in Conns |-> IF x \in SeqToSet(NodeC(self).ins) THEN Tail(qgrouped[x]) ELSE qgrouped[x]];
        if (self = Sup) {
          \* _Synchronizer._async_step: new action future, new observation future, hand the observation over
          nf := nf + 2; fact := nf - 1; newobs := nf;
          fut[nf - 1] := "pending" || fut[nf] := "pending";
          qact := Append(qact, nf - 1); qobs := Append(qobs, nf);
pst1:     fut[fobs] := "set"; fobs := newobs;                      \* point: _f_obs.set_result
          if (~mustReset) {
pst2:       await fut[fact] # "pending";                            \* point: _f_act.result()
            qact := Tail(qact);
            if (fut[fact] = "cancelled") { mustReset := TRUE; skippedStep := TRUE; skipCnt := skipCnt + 1 }
            else { execd[self] := Append(execd[self], k) };         \* the user ran (or overrode) the supervisor's step
          } else { skippedStep := TRUE; skipCnt := skipCnt + 1 };
        } else {
          execd[self] := Append(execd[self], k);                    \* node.step runs exactly here
        };
pst3:   \* outputs: only when not skipped and RUNNING (state read folded into this segment)
        \* record: a skipped supervisor tick is kept only if it is the first one after executed ticks, or if nothing but skipped
        \* ticks was recorded so far (rex: push_step, "Only append the final step we are stopping/resetting")
        if (~skippedStep \/ recSteps[self] = <<>> \/ Last(recSteps[self]).out = "none" \/ skipCnt = 1) {
          recSteps[self] := Append(recSteps[self], [tick |-> k, start |-> st[2], end |-> st[3], sched |-> st[4], tsmax |-> st[5], psb |-> st[6], eps |-> neps[self],
                                                    out |-> IF ~skippedStep THEN "val" ELSE IF recSteps[self] = <<>> \/ Last(recSteps[self]).out = "none" THEN "none" ELSE "nonetree"]);
        };
        oi := 1;
        if (~skippedStep /\ nstate[self] = "RUNNING") {
pst4h:    while (oi <= Len(NodeC(self).outs)) {
pst4:       SubmitConn(NodeC(self).outs[oi], Task("input", k, st[3], neps[self]), FALSE);   \* point per output: o._submit(push_input)
            oi := oi + 1;
          };
        };
pst5:   if (nstate[self] = "RUNNING") {
          qtick[self] := qtick[self] + 1;
pst6:     SubmitNode(self, Task("push_sched", 0, 0, 0), FALSE);     \* point: self._submit(push_scheduled_ts)
        };
      };
pst9: return;
}

\* =================================================================================================
\* node worker: push_phase_shift (inline from push_scheduled_ts, or as a task submitted by a blocking connection)
\* =================================================================================================
procedure PushPhase()
  variables tm = 0, sc = <<>>, ep = 0, phase = 0, tstart = 0, tend = 0, d = 0, oi = 1, ii = 1, psb = 0;
{
pp0:  if (qsched[self] # <<>> /\ qendprev[self] # <<>> /\ HasAllTsMax(self)) {
        tm := MaxSet({0} \cup {Head(qtsmax[BInsSeq(self)[i]]) : i \in 1..Len(BInsSeq(self))});
        qtsmax := [x \in Conns |-> IF x \in SeqToSet(BInsSeq(self)) THEN Tail(qtsmax[x]) ELSE qtsmax[x]];
        sc := Head(qsched[self]); qsched[self] := Tail(qsched[self]);
        ep := Head(qendprev[self]);
        psb := psched[self];
        phase := IF NodeC(self).advance /\ Len(NBInsSeq(self)) = 0
                 THEN Max2(tm - sc[2], ep - sc[2])
                 ELSE Max2(Max2(tm - sc[2], ep - sc[2]), psched[self]);
        psched[self] := IF NodeC(self).freq THEN psched[self] + Max2(0, (ep - sc[2]) - psched[self]) ELSE 0;
        tstart := sc[2] + phase;
        sidx[self] := sidx[self] + 1;
        d := Cfg.cstream[self][sidx[self]];
        tend := tstart + d;
        qstart[self] := Append(qstart[self], <<sc[1], tstart, tend, sc[2], tm, psb>>);
        qendprev[self] := Append(Tail(qendprev[self]), tend);
        oi := 1;
        if (nstate[self] = "RUNNING") {
pp1h:     while (oi <= Len(NodeC(self).outs)) {
pp1:        SubmitConn(NodeC(self).outs[oi], Task("ts_input", sc[1], tend, neps[self]), FALSE);   \* point per output: o._submit(push_ts_input)
            oi := oi + 1;
          };
        };
pp2:    SubmitNode(self, Task("push_sched", 0, 0, 0), FALSE);       \* point: self._submit(push_scheduled_ts) (simulate ahead)
pp3:    call PushStep();                                            \* inline push_step (no point of its own)
pp4:    ii := 1;
pp5:    while (ii <= Len(NBInsSeq(self))) {
          qnext[NBInsSeq(self)[ii]] := Append(qnext[NBInsSeq(self)[ii]], <<sc[1], tstart>>);
pp6:      SubmitConn(NBInsSeq(self)[ii], Task("exp_nonblocking", 0, 0, 0), FALSE);   \* point
          ii := ii + 1;
        };
      };
pp9:  return;
}

procedure PushSched()
  variables k = 0, s = 0, ii = 1;
{
ps0:  if (qtick[self] > 0) {
        qtick[self] := qtick[self] - 1;
        k := tick[self]; tick[self] := tick[self] + 1;
        s := k * NodeC(self).period + Ph[self];
        qsched[self] := Append(qsched[self], <<k, s>>);
        call PushPhase();
ps1:    ii := 1;
ps2:    while (ii <= Len(BInsSeq(self))) {
          qnext[BInsSeq(self)[ii]] := Append(qnext[BInsSeq(self)[ii]], <<k, s>>);
ps3:      SubmitConn(BInsSeq(self)[ii], Task("exp_blocking", 0, 0, 0), FALSE);       \* point
          ii := ii + 1;
        };
      };
ps9:  return;
}

\* node._stopping: stop every input connection, wait for it, then STOPPED
procedure NodeStopping()
  variables ii = 1;
{
ns0:  while (ii <= Len(NodeC(self).ins)) {
ns1:    \* point (lock): connection.stop(): flip + forced submit
        cstate[NodeC(self).ins[ii]] := "STOPPING";
        cexq[NodeC(self).ins[ii]] := Append(cexq[NodeC(self).ins[ii]], Task("cstopping", 0, 0, 0));
        cstopFut[NodeC(self).ins[ii]] := "pending";
ns2:    await cstopFut[NodeC(self).ins[ii]] = "done";               \* point: .result()
        ii := ii + 1;
      };
ns3:  nstate[self] := "STOPPED"; stopFut[self] := "done";
      return;
}

\* =================================================================================================
\* connection worker: inlined helpers
\* =================================================================================================
procedure PushSelection()
  variables cnt = 0, g = <<>>;
{
sel0: if (qexpsel[self] # <<>> /\ Len(qmsgs[self]) >= Head(qexpsel[self])[2]) {
        cnt := Head(qexpsel[self])[2]; qexpsel[self] := Tail(qexpsel[self]);
        g := SubSeq(qmsgs[self], 1, cnt);
        qmsgs[self] := SubSeq(qmsgs[self], cnt + 1, Len(qmsgs[self]));
        recMsgs[self] := recMsgs[self] \o [i \in 1..cnt |-> [out |-> g[i][1], in |-> ctick[self], sent |-> g[i][2], recv |-> g[i][3], eps |-> neps[ConnC(self).dst]]];
        ctick[self] := ctick[self] + 1;
        qgrouped[self] := Append(qgrouped[self], LastN(g, ConnC(self).window));
sel1:   SubmitNode(ConnC(self).dst, Task("push_step", 0, 0, 0), FALSE);             \* point: input_node._submit(push_step)
      };
sel9: return;
}

procedure PushTsMax()
  variables cnt = 0;
{
tm0:  if (qexptm[self] # <<>> /\ Head(qexptm[self]) <= Len(qtsin[self])) {
        cnt := Head(qexptm[self]); qexptm[self] := Tail(qexptm[self]);
        qtsmax[self] := Append(qtsmax[self], MaxSet({0} \cup {qtsin[self][i][2] : i \in 1..cnt}));
        qtsin[self] := SubSeq(qtsin[self], cnt + 1, Len(qtsin[self]));
tm1:    SubmitNode(ConnC(self).dst, Task("push_phase", 0, 0, 0), FALSE);            \* point: input_node._submit(push_phase_shift)
      };
tm9:  return;
}

procedure PushZip()
{
zp0:  if (qzipm[self] # <<>> /\ qzipd[self] # <<>>) {
        qmsgs[self] := Append(qmsgs[self], <<Head(qzipm[self])[1], Head(qzipm[self])[2], Head(qzipm[self])[2] + Head(qzipd[self])>>);
        qzipm[self] := Tail(qzipm[self]); qzipd[self] := Tail(qzipd[self]);
        call PushSelection();
      };
zp9:  return;
}

procedure ExpNonblocking()
  variables ts = 0, cnt = 0;
{
en0:  if (qnext[self] # <<>> /\ qtsin[self] # <<>>) {
        ts := Head(qnext[self])[2];
        if (HasFuture(qtsin[self], ts)) {
          qnext[self] := Tail(qnext[self]);
          cnt := CountPrefix(self, qtsin[self], ts);
          qtsin[self] := SubSeq(qtsin[self], cnt + 1, Len(qtsin[self]));
          qexpsel[self] := Append(qexpsel[self], <<ts, cnt>>);
          call PushSelection();
        };
      };
en9:  return;
}

procedure ExpBlocking()
  variables N = 0, cnt = 0, sc = 0;
{
eb0:  if (qnext[self] # <<>>) {
        N := Head(qnext[self])[1]; sc := Head(qnext[self])[2]; qnext[self] := Tail(qnext[self]);
        cnt := BlockCnt(self, N);
        qexptm[self] := Append(qexptm[self], cnt);
        call PushTsMax();
eb1:    qexpsel[self] := Append(qexpsel[self], <<sc, cnt>>);
        call PushSelection();
      };
eb9:  return;
}

procedure TsInput(tseq, tts, teps)
  variables recv = 0;
{
ti0:  if (ConnAllowed(cstate[self]) /\ teps = neps[ConnC(self).dst]) {
        midx[self] := midx[self] + 1;
        recv := Max2(tts + Cfg.mstream[self][midx[self]], prevrecv[self]);
        prevrecv[self] := recv;
        qzipd[self] := Append(qzipd[self], recv - tts);
        call PushZip();
ti1:    qtsin[self] := Append(qtsin[self], <<tseq, recv>>);
        if (ConnC(self).blocking) { call PushTsMax() } else { call ExpNonblocking() };
      };
ti9:  return;
}

procedure MsgInput(iseq, its, ieps)
{
mi0:  if (ConnAllowed(cstate[self]) /\ ieps = neps[ConnC(self).dst]) {
        qzipm[self] := Append(qzipm[self], <<iseq, its>>);
        call PushZip();
      };
mi9:  return;
}

\* =================================================================================================
\* user thread: AsyncGraph.stop / start / run_until_supervisor / run_supervisor
\* =================================================================================================
procedure Stop()
  variables ni = 1, cf = 0;
{
us0:  while (ni <= Len(Cfg.order)) {
        if (nstate[Cfg.order[ni]] = "RUNNING") {
us1:      nstate[Cfg.order[ni]] := "STOPPING";                                       \* point (lock): flip + forced submit
          exq[Cfg.order[ni]] := Append(exq[Cfg.order[ni]], Task("stopping", 0, 0, 0));
          stopFut[Cfg.order[ni]] := "pending";
        } else {
us2:      stopFut[Cfg.order[ni]] := "done";                                          \* point: Future().set_result(None)
        };
us3:    ni := ni + 1;
      };
      mustReset := TRUE;
      \* action[-1] is fetched here (IndexError is tolerated: then there is no cancel and no scheduling point)
      if (qact # <<>>) {
        cf := Last(qact);
us4:    if (fut[cf] = "pending") { fut[cf] := "cancelled" };                        \* point: .cancel()
      };
us5:  ni := 1;
us6:  while (ni <= Len(Cfg.order)) {
us7:    await stopFut[Cfg.order[ni]] = "done";                                      \* point: f.result()
        ni := ni + 1;
      };
      initialStep := TRUE;
us9:  return;
}

procedure Start()
  variables ni = 1, ci = 1;
{
ua0:  call Stop();
ua1:  \* _synchronizer.reset(); every node._reset() (and its connections): all workers are idle, one atomic user step
      episode := episode + 1;
      mustReset := FALSE; qact := <<>>; nf := nf + 1; fut[nf] := "pending"; qobs := <<nf>>; fobs := nf;
      neps := [n \in Nodes |-> neps[n] + 1];
      tick := [n \in Nodes |-> 0]; psched := [n \in Nodes |-> 0]; qtick := [n \in Nodes |-> 0];
      qsched := [n \in Nodes |-> <<>>]; qendprev := [n \in Nodes |-> <<>>]; qstart := [n \in Nodes |-> <<>>]; sidx := [n \in Nodes |-> 0];
      nstate := [n \in Nodes |-> "READY"];
      ctick := [x \in Conns |-> 0]; prevrecv := [x \in Conns |-> 0]; midx := [x \in Conns |-> 0];
      qnext := [x \in Conns |-> <<>>]; qtsin := [x \in Conns |-> <<>>]; qzipd := [x \in Conns |-> <<>>]; qzipm := [x \in Conns |-> <<>>];
      qmsgs := [x \in Conns |-> <<>>]; qexpsel := [x \in Conns |-> <<>>]; qexptm := [x \in Conns |-> <<>>]; qtsmax := [x \in Conns |-> <<>>];
      qgrouped := [x \in Conns |-> <<>>];
      cstate := [x \in Conns |-> "READY"];
      recSteps := [n \in Nodes |-> <<>>]; recMsgs := [x \in Conns |-> <<>>]; execd := [n \in Nodes |-> <<>>]; skipCnt := 0;
      ni := 1;
ua2h: while (ni <= Len(Cfg.order)) {
ua2:    nstate[Cfg.order[ni]] := "STARTING";                                         \* point (lock) per node: _startup: flip + submit _starting
        exq[Cfg.order[ni]] := Append(exq[Cfg.order[ni]], Task("starting", 0, 0, 0));
        startFut[Cfg.order[ni]] := "pending";
        ni := ni + 1;
      };
ua3:  ni := 1;
ua4:  while (ni <= Len(Cfg.order)) {
ua5:    await startFut[Cfg.order[ni]] = "done";                                     \* point: f.result()
        ni := ni + 1;
      };
ua6:  ni := 1;
ua7:  while (ni <= Len(Cfg.order)) {
        \* _start: RUNNING, then (point) _ts_start.set_result, inputs RUNNING, seed q_ts_end_prev, tokens
        nstate[Cfg.order[ni]] := "RUNNING";
ua8:    cstate := [x \in Conns |-> IF x \in SeqToSet(NodeC(Cfg.order[ni]).ins) THEN "RUNNING" ELSE cstate[x]];
        qendprev[Cfg.order[ni]] := <<0>>;
        qtick[Cfg.order[ni]] := NumTokens;
ua9:    SubmitNode(Cfg.order[ni], Task("push_sched", 0, 0, 0), FALSE);              \* point: _submit(push_scheduled_ts)
        ni := ni + 1;
      };
ua10: return;
}

procedure RunUntilSup()
  variables fo = 0;
{
ur0:  fo := Head(qobs); qobs := Tail(qobs);
ur1:  await fut[fo] = "set";                                                         \* point: .result()
      initialStep := FALSE;
ur9:  return;
}

procedure RunSup()
  variables rf = 0;
{
ux0:  if (~initialStep) {
        if (qact = <<>>) { raised := "IndexError(run_supervisor)" }
        else {
          rf := Last(qact);                                                          \* action[-1] fetched, then the point
ux1:      if (fut[rf] = "pending") { fut[rf] := "set" } else { raised := "InvalidState(run_supervisor)" };   \* point: .set_result
        };
      };
ux9:  return;
}

\* =================================================================================================
\* processes
\* =================================================================================================
fair process (U = "user")
{
u0:   while (hi <= Len(Hist) /\ raised = "") {
        if (Hist[hi] = "run") {
          if (initialStep) { call Start() };
u1:       call RunUntilSup();
u2:       call RunSup();
        } else if (Hist[hi] = "reset") {
          call Start();
u3:       call RunUntilSup();
        } else if (Hist[hi] = "step") {
          call RunSup();
u4:       call RunUntilSup();
        } else {
          call Stop();
        };
u5:     hi := hi + 1;
      };
u9:   skip;
}

fair process (NW \in Nodes)
  variables task = <<>>;
{
nw0:  while (TRUE) {
        await exq[self] # <<>>;                                                      \* point: dequeue
        task := Head(exq[self]); exq[self] := Tail(exq[self]);
        if (task.name = "push_sched") { call PushSched() }
        else if (task.name = "push_phase") { call PushPhase() }
        else if (task.name = "push_step") { call PushStep() }
        else if (task.name = "starting") { nstate[self] := "READY_TO_START"; startFut[self] := "done" }
        else { call NodeStopping() };
      };
}

fair process (CW \in Conns)
  variables ctask = <<>>;
{
cw0:  while (TRUE) {
        await cexq[self] # <<>>;                                                     \* point: dequeue
        ctask := Head(cexq[self]); cexq[self] := Tail(cexq[self]);
        if (ctask.name = "exp_blocking") { call ExpBlocking() }
        else if (ctask.name = "exp_nonblocking") { call ExpNonblocking() }
        else if (ctask.name = "ts_input") { call TsInput(ctask.seq, ctask.ts, ctask.eps) }
        else if (ctask.name = "input") { call MsgInput(ctask.seq, ctask.ts, ctask.eps) }
        else { cstate[self] := "STOPPED"; cstopFut[self] := "done" };
      };
}
} *)
\* BEGIN TRANSLATION (chksum(pcal) = "9851518" /\ chksum(tla) = "b14a1fa1")
\* Procedure variable k of procedure PushStep at line 131 col 24 changed to k_
\* Procedure variable oi of procedure PushStep at line 131 col 74 changed to oi_
\* Procedure variable sc of procedure PushPhase at line 179 col 21 changed to sc_
\* Procedure variable ii of procedure PushPhase at line 179 col 88 changed to ii_
\* Procedure variable ii of procedure PushSched at line 217 col 27 changed to ii_P
\* Procedure variable cnt of procedure PushSelection at line 255 col 13 changed to cnt_
\* Procedure variable cnt of procedure PushTsMax at line 270 col 13 changed to cnt_P
\* Procedure variable cnt of procedure ExpNonblocking at line 292 col 21 changed to cnt_E
\* Procedure variable ni of procedure Stop at line 349 col 13 changed to ni_
CONSTANT defaultInitValue
VARIABLES pc, nstate, exq, neps, tick, psched, qtick, qsched, qendprev, 
          qstart, sidx, stopFut, startFut, cstate, cexq, ctick, prevrecv, 
          midx, qnext, qtsin, qzipd, qzipm, qmsgs, qexpsel, qexptm, qtsmax, 
          qgrouped, cstopFut, fut, nf, qact, qobs, fobs, mustReset, 
          initialStep, hi, raised, recSteps, recMsgs, execd, episode, skipCnt, 
          stack

(* define statement *)
HasAllTsMax(n) == \A i \in 1..Len(BInsSeq(n)) : qtsmax[BInsSeq(n)[i]] # <<>>
HasAllGrouped(n) == \A i \in 1..Len(NodeC(n).ins) : qgrouped[NodeC(n).ins[i]] # <<>>

VARIABLES st, k_, fact, newobs, skippedStep, oi_, tm, sc_, ep, phase, tstart, 
          tend, d, oi, ii_, psb, k, s, ii_P, ii, cnt_, g, cnt_P, ts, cnt_E, N, 
          cnt, sc, tseq, tts, teps, recv, iseq, its, ieps, ni_, cf, ni, ci, 
          fo, rf, task, ctask

vars == << pc, nstate, exq, neps, tick, psched, qtick, qsched, qendprev, 
           qstart, sidx, stopFut, startFut, cstate, cexq, ctick, prevrecv, 
           midx, qnext, qtsin, qzipd, qzipm, qmsgs, qexpsel, qexptm, qtsmax, 
           qgrouped, cstopFut, fut, nf, qact, qobs, fobs, mustReset, 
           initialStep, hi, raised, recSteps, recMsgs, execd, episode, 
           skipCnt, stack, st, k_, fact, newobs, skippedStep, oi_, tm, sc_, 
           ep, phase, tstart, tend, d, oi, ii_, psb, k, s, ii_P, ii, cnt_, g, 
           cnt_P, ts, cnt_E, N, cnt, sc, tseq, tts, teps, recv, iseq, its, 
           ieps, ni_, cf, ni, ci, fo, rf, task, ctask >>

ProcSet == {"user"} \cup (Nodes) \cup (Conns)

Init == (* Global variables *)
        /\ nstate = [n \in Nodes |-> "STOPPED"]
        /\ exq = [n \in Nodes |-> <<>>]
        /\ neps = [n \in Nodes |-> -1]
        /\ tick = [n \in Nodes |-> 0]
        /\ psched = [n \in Nodes |-> 0]
        /\ qtick = [n \in Nodes |-> 0]
        /\ qsched = [n \in Nodes |-> <<>>]
        /\ qendprev = [n \in Nodes |-> <<>>]
        /\ qstart = [n \in Nodes |-> <<>>]
        /\ sidx = [n \in Nodes |-> 0]
        /\ stopFut = [n \in Nodes |-> "none"]
        /\ startFut = [n \in Nodes |-> "none"]
        /\ cstate = [x \in Conns |-> "STOPPED"]
        /\ cexq = [x \in Conns |-> <<>>]
        /\ ctick = [x \in Conns |-> 0]
        /\ prevrecv = [x \in Conns |-> 0]
        /\ midx = [x \in Conns |-> 0]
        /\ qnext = [x \in Conns |-> <<>>]
        /\ qtsin = [x \in Conns |-> <<>>]
        /\ qzipd = [x \in Conns |-> <<>>]
        /\ qzipm = [x \in Conns |-> <<>>]
        /\ qmsgs = [x \in Conns |-> <<>>]
        /\ qexpsel = [x \in Conns |-> <<>>]
        /\ qexptm = [x \in Conns |-> <<>>]
        /\ qtsmax = [x \in Conns |-> <<>>]
        /\ qgrouped = [x \in Conns |-> <<>>]
        /\ cstopFut = [x \in Conns |-> "none"]
        /\ fut = [i \in 1..60 |-> "none"]
        /\ nf = 0
        /\ qact = <<>>
        /\ qobs = <<>>
        /\ fobs = 0
        /\ mustReset = FALSE
        /\ initialStep = TRUE
        /\ hi = 1
        /\ raised = ""
        /\ recSteps = [n \in Nodes |-> <<>>]
        /\ recMsgs = [x \in Conns |-> <<>>]
        /\ execd = [n \in Nodes |-> <<>>]
        /\ episode = 0
        /\ skipCnt = 0
        (* Procedure PushStep *)
        /\ st = [ self \in ProcSet |-> <<>>]
        /\ k_ = [ self \in ProcSet |-> 0]
        /\ fact = [ self \in ProcSet |-> 0]
        /\ newobs = [ self \in ProcSet |-> 0]
        /\ skippedStep = [ self \in ProcSet |-> FALSE]
        /\ oi_ = [ self \in ProcSet |-> 1]
        (* Procedure PushPhase *)
        /\ tm = [ self \in ProcSet |-> 0]
        /\ sc_ = [ self \in ProcSet |-> <<>>]
        /\ ep = [ self \in ProcSet |-> 0]
        /\ phase = [ self \in ProcSet |-> 0]
        /\ tstart = [ self \in ProcSet |-> 0]
        /\ tend = [ self \in ProcSet |-> 0]
        /\ d = [ self \in ProcSet |-> 0]
        /\ oi = [ self \in ProcSet |-> 1]
        /\ ii_ = [ self \in ProcSet |-> 1]
        /\ psb = [ self \in ProcSet |-> 0]
        (* Procedure PushSched *)
        /\ k = [ self \in ProcSet |-> 0]
        /\ s = [ self \in ProcSet |-> 0]
        /\ ii_P = [ self \in ProcSet |-> 1]
        (* Procedure NodeStopping *)
        /\ ii = [ self \in ProcSet |-> 1]
        (* Procedure PushSelection *)
        /\ cnt_ = [ self \in ProcSet |-> 0]
        /\ g = [ self \in ProcSet |-> <<>>]
        (* Procedure PushTsMax *)
        /\ cnt_P = [ self \in ProcSet |-> 0]
        (* Procedure ExpNonblocking *)
        /\ ts = [ self \in ProcSet |-> 0]
        /\ cnt_E = [ self \in ProcSet |-> 0]
        (* Procedure ExpBlocking *)
        /\ N = [ self \in ProcSet |-> 0]
        /\ cnt = [ self \in ProcSet |-> 0]
        /\ sc = [ self \in ProcSet |-> 0]
        (* Procedure TsInput *)
        /\ tseq = [ self \in ProcSet |-> defaultInitValue]
        /\ tts = [ self \in ProcSet |-> defaultInitValue]
        /\ teps = [ self \in ProcSet |-> defaultInitValue]
        /\ recv = [ self \in ProcSet |-> 0]
        (* Procedure MsgInput *)
        /\ iseq = [ self \in ProcSet |-> defaultInitValue]
        /\ its = [ self \in ProcSet |-> defaultInitValue]
        /\ ieps = [ self \in ProcSet |-> defaultInitValue]
        (* Procedure Stop *)
        /\ ni_ = [ self \in ProcSet |-> 1]
        /\ cf = [ self \in ProcSet |-> 0]
        (* Procedure Start *)
        /\ ni = [ self \in ProcSet |-> 1]
        /\ ci = [ self \in ProcSet |-> 1]
        (* Procedure RunUntilSup *)
        /\ fo = [ self \in ProcSet |-> 0]
        (* Procedure RunSup *)
        /\ rf = [ self \in ProcSet |-> 0]
        (* Process NW *)
        /\ task = [self \in Nodes |-> <<>>]
        (* Process CW *)
        /\ ctask = [self \in Conns |-> <<>>]
        /\ stack = [self \in ProcSet |-> << >>]
        /\ pc = [self \in ProcSet |-> CASE self = "user" -> "u0"
                                        [] self \in Nodes -> "nw0"
                                        [] self \in Conns -> "cw0"]

pst0(self) == /\ pc[self] = "pst0"
              /\ IF qstart[self] # <<>> /\ HasAllGrouped(self)
                    THEN /\ st' = [st EXCEPT ![self] = Head(qstart[self])]
                         /\ qstart' = [qstart EXCEPT ![self] = Tail(qstart[self])]
                         /\ k_' = [k_ EXCEPT ![self] = st'[self][1]]
                         /\ qgrouped' = [x \in Conns |-> IF x \in SeqToSet(NodeC(self).ins) THEN Tail(qgrouped[x]) ELSE qgrouped[x]]
                         /\ IF self = Sup
                               THEN /\ nf' = nf + 2
                                    /\ fact' = [fact EXCEPT ![self] = nf' - 1]
                                    /\ newobs' = [newobs EXCEPT ![self] = nf']
                                    /\ fut' = [fut EXCEPT ![nf' - 1] = "pending",
                                                          ![nf'] = "pending"]
                                    /\ qact' = Append(qact, nf' - 1)
                                    /\ qobs' = Append(qobs, nf')
                                    /\ pc' = [pc EXCEPT ![self] = "pst1"]
                                    /\ execd' = execd
                               ELSE /\ execd' = [execd EXCEPT ![self] = Append(execd[self], k_'[self])]
                                    /\ pc' = [pc EXCEPT ![self] = "pst3"]
                                    /\ UNCHANGED << fut, nf, qact, qobs, fact, 
                                                    newobs >>
                    ELSE /\ pc' = [pc EXCEPT ![self] = "pst9"]
                         /\ UNCHANGED << qstart, qgrouped, fut, nf, qact, qobs, 
                                         execd, st, k_, fact, newobs >>
              /\ UNCHANGED << nstate, exq, neps, tick, psched, qtick, qsched, 
                              qendprev, sidx, stopFut, startFut, cstate, cexq, 
                              ctick, prevrecv, midx, qnext, qtsin, qzipd, 
                              qzipm, qmsgs, qexpsel, qexptm, qtsmax, cstopFut, 
                              fobs, mustReset, initialStep, hi, raised, 
                              recSteps, recMsgs, episode, skipCnt, stack, 
                              skippedStep, oi_, tm, sc_, ep, phase, tstart, 
                              tend, d, oi, ii_, psb, k, s, ii_P, ii, cnt_, g, 
                              cnt_P, ts, cnt_E, N, cnt, sc, tseq, tts, teps, 
                              recv, iseq, its, ieps, ni_, cf, ni, ci, fo, rf, 
                              task, ctask >>

pst3(self) == /\ pc[self] = "pst3"
              /\ IF ~skippedStep[self] \/ recSteps[self] = <<>> \/ Last(recSteps[self]).out = "none" \/ skipCnt = 1
                    THEN /\ recSteps' = [recSteps EXCEPT ![self] = Append(recSteps[self], [tick |-> k_[self], start |-> st[self][2], end |-> st[self][3], sched |-> st[self][4], tsmax |-> st[self][5], psb |-> st[self][6], eps |-> neps[self],
                                                                                           out |-> IF ~skippedStep[self] THEN "val" ELSE IF recSteps[self] = <<>> \/ Last(recSteps[self]).out = "none" THEN "none" ELSE "nonetree"])]
                    ELSE /\ TRUE
                         /\ UNCHANGED recSteps
              /\ oi_' = [oi_ EXCEPT ![self] = 1]
              /\ IF ~skippedStep[self] /\ nstate[self] = "RUNNING"
                    THEN /\ pc' = [pc EXCEPT ![self] = "pst4h"]
                    ELSE /\ pc' = [pc EXCEPT ![self] = "pst5"]
              /\ UNCHANGED << nstate, exq, neps, tick, psched, qtick, qsched, 
                              qendprev, qstart, sidx, stopFut, startFut, 
                              cstate, cexq, ctick, prevrecv, midx, qnext, 
                              qtsin, qzipd, qzipm, qmsgs, qexpsel, qexptm, 
                              qtsmax, qgrouped, cstopFut, fut, nf, qact, qobs, 
                              fobs, mustReset, initialStep, hi, raised, 
                              recMsgs, execd, episode, skipCnt, stack, st, k_, 
                              fact, newobs, skippedStep, tm, sc_, ep, phase, 
                              tstart, tend, d, oi, ii_, psb, k, s, ii_P, ii, 
                              cnt_, g, cnt_P, ts, cnt_E, N, cnt, sc, tseq, tts, 
                              teps, recv, iseq, its, ieps, ni_, cf, ni, ci, fo, 
                              rf, task, ctask >>

pst4h(self) == /\ pc[self] = "pst4h"
               /\ IF oi_[self] <= Len(NodeC(self).outs)
                     THEN /\ pc' = [pc EXCEPT ![self] = "pst4"]
                     ELSE /\ pc' = [pc EXCEPT ![self] = "pst5"]
               /\ UNCHANGED << nstate, exq, neps, tick, psched, qtick, qsched, 
                               qendprev, qstart, sidx, stopFut, startFut, 
                               cstate, cexq, ctick, prevrecv, midx, qnext, 
                               qtsin, qzipd, qzipm, qmsgs, qexpsel, qexptm, 
                               qtsmax, qgrouped, cstopFut, fut, nf, qact, qobs, 
                               fobs, mustReset, initialStep, hi, raised, 
                               recSteps, recMsgs, execd, episode, skipCnt, 
                               stack, st, k_, fact, newobs, skippedStep, oi_, 
                               tm, sc_, ep, phase, tstart, tend, d, oi, ii_, 
                               psb, k, s, ii_P, ii, cnt_, g, cnt_P, ts, cnt_E, 
                               N, cnt, sc, tseq, tts, teps, recv, iseq, its, 
                               ieps, ni_, cf, ni, ci, fo, rf, task, ctask >>

pst4(self) == /\ pc[self] = "pst4"
              /\ IF ConnAllowed(cstate[(NodeC(self).outs[oi_[self]])]) \/ FALSE
                    THEN /\ cexq' = [cexq EXCEPT ![(NodeC(self).outs[oi_[self]])] = Append(cexq[(NodeC(self).outs[oi_[self]])], (Task("input", k_[self], st[self][3], neps[self])))]
                    ELSE /\ TRUE
                         /\ cexq' = cexq
              /\ oi_' = [oi_ EXCEPT ![self] = oi_[self] + 1]
              /\ pc' = [pc EXCEPT ![self] = "pst4h"]
              /\ UNCHANGED << nstate, exq, neps, tick, psched, qtick, qsched, 
                              qendprev, qstart, sidx, stopFut, startFut, 
                              cstate, ctick, prevrecv, midx, qnext, qtsin, 
                              qzipd, qzipm, qmsgs, qexpsel, qexptm, qtsmax, 
                              qgrouped, cstopFut, fut, nf, qact, qobs, fobs, 
                              mustReset, initialStep, hi, raised, recSteps, 
                              recMsgs, execd, episode, skipCnt, stack, st, k_, 
                              fact, newobs, skippedStep, tm, sc_, ep, phase, 
                              tstart, tend, d, oi, ii_, psb, k, s, ii_P, ii, 
                              cnt_, g, cnt_P, ts, cnt_E, N, cnt, sc, tseq, tts, 
                              teps, recv, iseq, its, ieps, ni_, cf, ni, ci, fo, 
                              rf, task, ctask >>

pst5(self) == /\ pc[self] = "pst5"
              /\ IF nstate[self] = "RUNNING"
                    THEN /\ qtick' = [qtick EXCEPT ![self] = qtick[self] + 1]
                         /\ pc' = [pc EXCEPT ![self] = "pst6"]
                    ELSE /\ pc' = [pc EXCEPT ![self] = "pst9"]
                         /\ qtick' = qtick
              /\ UNCHANGED << nstate, exq, neps, tick, psched, qsched, 
                              qendprev, qstart, sidx, stopFut, startFut, 
                              cstate, cexq, ctick, prevrecv, midx, qnext, 
                              qtsin, qzipd, qzipm, qmsgs, qexpsel, qexptm, 
                              qtsmax, qgrouped, cstopFut, fut, nf, qact, qobs, 
                              fobs, mustReset, initialStep, hi, raised, 
                              recSteps, recMsgs, execd, episode, skipCnt, 
                              stack, st, k_, fact, newobs, skippedStep, oi_, 
                              tm, sc_, ep, phase, tstart, tend, d, oi, ii_, 
                              psb, k, s, ii_P, ii, cnt_, g, cnt_P, ts, cnt_E, 
                              N, cnt, sc, tseq, tts, teps, recv, iseq, its, 
                              ieps, ni_, cf, ni, ci, fo, rf, task, ctask >>

pst6(self) == /\ pc[self] = "pst6"
              /\ IF NodeAllowed(nstate[self]) \/ FALSE
                    THEN /\ exq' = [exq EXCEPT ![self] = Append(exq[self], (Task("push_sched", 0, 0, 0)))]
                    ELSE /\ TRUE
                         /\ exq' = exq
              /\ pc' = [pc EXCEPT ![self] = "pst9"]
              /\ UNCHANGED << nstate, neps, tick, psched, qtick, qsched, 
                              qendprev, qstart, sidx, stopFut, startFut, 
                              cstate, cexq, ctick, prevrecv, midx, qnext, 
                              qtsin, qzipd, qzipm, qmsgs, qexpsel, qexptm, 
                              qtsmax, qgrouped, cstopFut, fut, nf, qact, qobs, 
                              fobs, mustReset, initialStep, hi, raised, 
                              recSteps, recMsgs, execd, episode, skipCnt, 
                              stack, st, k_, fact, newobs, skippedStep, oi_, 
                              tm, sc_, ep, phase, tstart, tend, d, oi, ii_, 
                              psb, k, s, ii_P, ii, cnt_, g, cnt_P, ts, cnt_E, 
                              N, cnt, sc, tseq, tts, teps, recv, iseq, its, 
                              ieps, ni_, cf, ni, ci, fo, rf, task, ctask >>

pst1(self) == /\ pc[self] = "pst1"
              /\ fut' = [fut EXCEPT ![fobs] = "set"]
              /\ fobs' = newobs[self]
              /\ IF ~mustReset
                    THEN /\ pc' = [pc EXCEPT ![self] = "pst2"]
                         /\ UNCHANGED << skipCnt, skippedStep >>
                    ELSE /\ skippedStep' = [skippedStep EXCEPT ![self] = TRUE]
                         /\ skipCnt' = skipCnt + 1
                         /\ pc' = [pc EXCEPT ![self] = "pst3"]
              /\ UNCHANGED << nstate, exq, neps, tick, psched, qtick, qsched, 
                              qendprev, qstart, sidx, stopFut, startFut, 
                              cstate, cexq, ctick, prevrecv, midx, qnext, 
                              qtsin, qzipd, qzipm, qmsgs, qexpsel, qexptm, 
                              qtsmax, qgrouped, cstopFut, nf, qact, qobs, 
                              mustReset, initialStep, hi, raised, recSteps, 
                              recMsgs, execd, episode, stack, st, k_, fact, 
                              newobs, oi_, tm, sc_, ep, phase, tstart, tend, d, 
                              oi, ii_, psb, k, s, ii_P, ii, cnt_, g, cnt_P, ts, 
                              cnt_E, N, cnt, sc, tseq, tts, teps, recv, iseq, 
                              its, ieps, ni_, cf, ni, ci, fo, rf, task, ctask >>

pst2(self) == /\ pc[self] = "pst2"
              /\ fut[fact[self]] # "pending"
              /\ qact' = Tail(qact)
              /\ IF fut[fact[self]] = "cancelled"
                    THEN /\ mustReset' = TRUE
                         /\ skippedStep' = [skippedStep EXCEPT ![self] = TRUE]
                         /\ skipCnt' = skipCnt + 1
                         /\ execd' = execd
                    ELSE /\ execd' = [execd EXCEPT ![self] = Append(execd[self], k_[self])]
                         /\ UNCHANGED << mustReset, skipCnt, skippedStep >>
              /\ pc' = [pc EXCEPT ![self] = "pst3"]
              /\ UNCHANGED << nstate, exq, neps, tick, psched, qtick, qsched, 
                              qendprev, qstart, sidx, stopFut, startFut, 
                              cstate, cexq, ctick, prevrecv, midx, qnext, 
                              qtsin, qzipd, qzipm, qmsgs, qexpsel, qexptm, 
                              qtsmax, qgrouped, cstopFut, fut, nf, qobs, fobs, 
                              initialStep, hi, raised, recSteps, recMsgs, 
                              episode, stack, st, k_, fact, newobs, oi_, tm, 
                              sc_, ep, phase, tstart, tend, d, oi, ii_, psb, k, 
                              s, ii_P, ii, cnt_, g, cnt_P, ts, cnt_E, N, cnt, 
                              sc, tseq, tts, teps, recv, iseq, its, ieps, ni_, 
                              cf, ni, ci, fo, rf, task, ctask >>

pst9(self) == /\ pc[self] = "pst9"
              /\ pc' = [pc EXCEPT ![self] = Head(stack[self]).pc]
              /\ st' = [st EXCEPT ![self] = Head(stack[self]).st]
              /\ k_' = [k_ EXCEPT ![self] = Head(stack[self]).k_]
              /\ fact' = [fact EXCEPT ![self] = Head(stack[self]).fact]
              /\ newobs' = [newobs EXCEPT ![self] = Head(stack[self]).newobs]
              /\ skippedStep' = [skippedStep EXCEPT ![self] = Head(stack[self]).skippedStep]
              /\ oi_' = [oi_ EXCEPT ![self] = Head(stack[self]).oi_]
              /\ stack' = [stack EXCEPT ![self] = Tail(stack[self])]
              /\ UNCHANGED << nstate, exq, neps, tick, psched, qtick, qsched, 
                              qendprev, qstart, sidx, stopFut, startFut, 
                              cstate, cexq, ctick, prevrecv, midx, qnext, 
                              qtsin, qzipd, qzipm, qmsgs, qexpsel, qexptm, 
                              qtsmax, qgrouped, cstopFut, fut, nf, qact, qobs, 
                              fobs, mustReset, initialStep, hi, raised, 
                              recSteps, recMsgs, execd, episode, skipCnt, tm, 
                              sc_, ep, phase, tstart, tend, d, oi, ii_, psb, k, 
                              s, ii_P, ii, cnt_, g, cnt_P, ts, cnt_E, N, cnt, 
                              sc, tseq, tts, teps, recv, iseq, its, ieps, ni_, 
                              cf, ni, ci, fo, rf, task, ctask >>

PushStep(self) == pst0(self) \/ pst3(self) \/ pst4h(self) \/ pst4(self)
                     \/ pst5(self) \/ pst6(self) \/ pst1(self)
                     \/ pst2(self) \/ pst9(self)

pp0(self) == /\ pc[self] = "pp0"
             /\ IF qsched[self] # <<>> /\ qendprev[self] # <<>> /\ HasAllTsMax(self)
                   THEN /\ tm' = [tm EXCEPT ![self] = MaxSet({0} \cup {Head(qtsmax[BInsSeq(self)[i]]) : i \in 1..Len(BInsSeq(self))})]
                        /\ qtsmax' = [x \in Conns |-> IF x \in SeqToSet(BInsSeq(self)) THEN Tail(qtsmax[x]) ELSE qtsmax[x]]
                        /\ sc_' = [sc_ EXCEPT ![self] = Head(qsched[self])]
                        /\ qsched' = [qsched EXCEPT ![self] = Tail(qsched[self])]
                        /\ ep' = [ep EXCEPT ![self] = Head(qendprev[self])]
                        /\ psb' = [psb EXCEPT ![self] = psched[self]]
                        /\ phase' = [phase EXCEPT ![self] = IF NodeC(self).advance /\ Len(NBInsSeq(self)) = 0
                                                            THEN Max2(tm'[self] - sc_'[self][2], ep'[self] - sc_'[self][2])
                                                            ELSE Max2(Max2(tm'[self] - sc_'[self][2], ep'[self] - sc_'[self][2]), psched[self])]
                        /\ psched' = [psched EXCEPT ![self] = IF NodeC(self).freq THEN psched[self] + Max2(0, (ep'[self] - sc_'[self][2]) - psched[self]) ELSE 0]
                        /\ tstart' = [tstart EXCEPT ![self] = sc_'[self][2] + phase'[self]]
                        /\ sidx' = [sidx EXCEPT ![self] = sidx[self] + 1]
                        /\ d' = [d EXCEPT ![self] = Cfg.cstream[self][sidx'[self]]]
                        /\ tend' = [tend EXCEPT ![self] = tstart'[self] + d'[self]]
                        /\ qstart' = [qstart EXCEPT ![self] = Append(qstart[self], <<sc_'[self][1], tstart'[self], tend'[self], sc_'[self][2], tm'[self], psb'[self]>>)]
                        /\ qendprev' = [qendprev EXCEPT ![self] = Append(Tail(qendprev[self]), tend'[self])]
                        /\ oi' = [oi EXCEPT ![self] = 1]
                        /\ IF nstate[self] = "RUNNING"
                              THEN /\ pc' = [pc EXCEPT ![self] = "pp1h"]
                              ELSE /\ pc' = [pc EXCEPT ![self] = "pp2"]
                   ELSE /\ pc' = [pc EXCEPT ![self] = "pp9"]
                        /\ UNCHANGED << psched, qsched, qendprev, qstart, sidx, 
                                        qtsmax, tm, sc_, ep, phase, tstart, 
                                        tend, d, oi, psb >>
             /\ UNCHANGED << nstate, exq, neps, tick, qtick, stopFut, startFut, 
                             cstate, cexq, ctick, prevrecv, midx, qnext, qtsin, 
                             qzipd, qzipm, qmsgs, qexpsel, qexptm, qgrouped, 
                             cstopFut, fut, nf, qact, qobs, fobs, mustReset, 
                             initialStep, hi, raised, recSteps, recMsgs, execd, 
                             episode, skipCnt, stack, st, k_, fact, newobs, 
                             skippedStep, oi_, ii_, k, s, ii_P, ii, cnt_, g, 
                             cnt_P, ts, cnt_E, N, cnt, sc, tseq, tts, teps, 
                             recv, iseq, its, ieps, ni_, cf, ni, ci, fo, rf, 
                             task, ctask >>

pp2(self) == /\ pc[self] = "pp2"
             /\ IF NodeAllowed(nstate[self]) \/ FALSE
                   THEN /\ exq' = [exq EXCEPT ![self] = Append(exq[self], (Task("push_sched", 0, 0, 0)))]
                   ELSE /\ TRUE
                        /\ exq' = exq
             /\ pc' = [pc EXCEPT ![self] = "pp3"]
             /\ UNCHANGED << nstate, neps, tick, psched, qtick, qsched, 
                             qendprev, qstart, sidx, stopFut, startFut, cstate, 
                             cexq, ctick, prevrecv, midx, qnext, qtsin, qzipd, 
                             qzipm, qmsgs, qexpsel, qexptm, qtsmax, qgrouped, 
                             cstopFut, fut, nf, qact, qobs, fobs, mustReset, 
                             initialStep, hi, raised, recSteps, recMsgs, execd, 
                             episode, skipCnt, stack, st, k_, fact, newobs, 
                             skippedStep, oi_, tm, sc_, ep, phase, tstart, 
                             tend, d, oi, ii_, psb, k, s, ii_P, ii, cnt_, g, 
                             cnt_P, ts, cnt_E, N, cnt, sc, tseq, tts, teps, 
                             recv, iseq, its, ieps, ni_, cf, ni, ci, fo, rf, 
                             task, ctask >>

pp3(self) == /\ pc[self] = "pp3"
             /\ stack' = [stack EXCEPT ![self] = << [ procedure |->  "PushStep",
                                                      pc        |->  "pp4",
                                                      st        |->  st[self],
                                                      k_        |->  k_[self],
                                                      fact      |->  fact[self],
                                                      newobs    |->  newobs[self],
                                                      skippedStep |->  skippedStep[self],
                                                      oi_       |->  oi_[self] ] >>
                                                  \o stack[self]]
             /\ st' = [st EXCEPT ![self] = <<>>]
             /\ k_' = [k_ EXCEPT ![self] = 0]
             /\ fact' = [fact EXCEPT ![self] = 0]
             /\ newobs' = [newobs EXCEPT ![self] = 0]
             /\ skippedStep' = [skippedStep EXCEPT ![self] = FALSE]
             /\ oi_' = [oi_ EXCEPT ![self] = 1]
             /\ pc' = [pc EXCEPT ![self] = "pst0"]
             /\ UNCHANGED << nstate, exq, neps, tick, psched, qtick, qsched, 
                             qendprev, qstart, sidx, stopFut, startFut, cstate, 
                             cexq, ctick, prevrecv, midx, qnext, qtsin, qzipd, 
                             qzipm, qmsgs, qexpsel, qexptm, qtsmax, qgrouped, 
                             cstopFut, fut, nf, qact, qobs, fobs, mustReset, 
                             initialStep, hi, raised, recSteps, recMsgs, execd, 
                             episode, skipCnt, tm, sc_, ep, phase, tstart, 
                             tend, d, oi, ii_, psb, k, s, ii_P, ii, cnt_, g, 
                             cnt_P, ts, cnt_E, N, cnt, sc, tseq, tts, teps, 
                             recv, iseq, its, ieps, ni_, cf, ni, ci, fo, rf, 
                             task, ctask >>

pp4(self) == /\ pc[self] = "pp4"
             /\ ii_' = [ii_ EXCEPT ![self] = 1]
             /\ pc' = [pc EXCEPT ![self] = "pp5"]
             /\ UNCHANGED << nstate, exq, neps, tick, psched, qtick, qsched, 
                             qendprev, qstart, sidx, stopFut, startFut, cstate, 
                             cexq, ctick, prevrecv, midx, qnext, qtsin, qzipd, 
                             qzipm, qmsgs, qexpsel, qexptm, qtsmax, qgrouped, 
                             cstopFut, fut, nf, qact, qobs, fobs, mustReset, 
                             initialStep, hi, raised, recSteps, recMsgs, execd, 
                             episode, skipCnt, stack, st, k_, fact, newobs, 
                             skippedStep, oi_, tm, sc_, ep, phase, tstart, 
                             tend, d, oi, psb, k, s, ii_P, ii, cnt_, g, cnt_P, 
                             ts, cnt_E, N, cnt, sc, tseq, tts, teps, recv, 
                             iseq, its, ieps, ni_, cf, ni, ci, fo, rf, task, 
                             ctask >>

pp5(self) == /\ pc[self] = "pp5"
             /\ IF ii_[self] <= Len(NBInsSeq(self))
                   THEN /\ qnext' = [qnext EXCEPT ![NBInsSeq(self)[ii_[self]]] = Append(qnext[NBInsSeq(self)[ii_[self]]], <<sc_[self][1], tstart[self]>>)]
                        /\ pc' = [pc EXCEPT ![self] = "pp6"]
                   ELSE /\ pc' = [pc EXCEPT ![self] = "pp9"]
                        /\ qnext' = qnext
             /\ UNCHANGED << nstate, exq, neps, tick, psched, qtick, qsched, 
                             qendprev, qstart, sidx, stopFut, startFut, cstate, 
                             cexq, ctick, prevrecv, midx, qtsin, qzipd, qzipm, 
                             qmsgs, qexpsel, qexptm, qtsmax, qgrouped, 
                             cstopFut, fut, nf, qact, qobs, fobs, mustReset, 
                             initialStep, hi, raised, recSteps, recMsgs, execd, 
                             episode, skipCnt, stack, st, k_, fact, newobs, 
                             skippedStep, oi_, tm, sc_, ep, phase, tstart, 
                             tend, d, oi, ii_, psb, k, s, ii_P, ii, cnt_, g, 
                             cnt_P, ts, cnt_E, N, cnt, sc, tseq, tts, teps, 
                             recv, iseq, its, ieps, ni_, cf, ni, ci, fo, rf, 
                             task, ctask >>

pp6(self) == /\ pc[self] = "pp6"
             /\ IF ConnAllowed(cstate[(NBInsSeq(self)[ii_[self]])]) \/ FALSE
                   THEN /\ cexq' = [cexq EXCEPT ![(NBInsSeq(self)[ii_[self]])] = Append(cexq[(NBInsSeq(self)[ii_[self]])], (Task("exp_nonblocking", 0, 0, 0)))]
                   ELSE /\ TRUE
                        /\ cexq' = cexq
             /\ ii_' = [ii_ EXCEPT ![self] = ii_[self] + 1]
             /\ pc' = [pc EXCEPT ![self] = "pp5"]
             /\ UNCHANGED << nstate, exq, neps, tick, psched, qtick, qsched, 
                             qendprev, qstart, sidx, stopFut, startFut, cstate, 
                             ctick, prevrecv, midx, qnext, qtsin, qzipd, qzipm, 
                             qmsgs, qexpsel, qexptm, qtsmax, qgrouped, 
                             cstopFut, fut, nf, qact, qobs, fobs, mustReset, 
                             initialStep, hi, raised, recSteps, recMsgs, execd, 
                             episode, skipCnt, stack, st, k_, fact, newobs, 
                             skippedStep, oi_, tm, sc_, ep, phase, tstart, 
                             tend, d, oi, psb, k, s, ii_P, ii, cnt_, g, cnt_P, 
                             ts, cnt_E, N, cnt, sc, tseq, tts, teps, recv, 
                             iseq, its, ieps, ni_, cf, ni, ci, fo, rf, task, 
                             ctask >>

pp1h(self) == /\ pc[self] = "pp1h"
              /\ IF oi[self] <= Len(NodeC(self).outs)
                    THEN /\ pc' = [pc EXCEPT ![self] = "pp1"]
                    ELSE /\ pc' = [pc EXCEPT ![self] = "pp2"]
              /\ UNCHANGED << nstate, exq, neps, tick, psched, qtick, qsched, 
                              qendprev, qstart, sidx, stopFut, startFut, 
                              cstate, cexq, ctick, prevrecv, midx, qnext, 
                              qtsin, qzipd, qzipm, qmsgs, qexpsel, qexptm, 
                              qtsmax, qgrouped, cstopFut, fut, nf, qact, qobs, 
                              fobs, mustReset, initialStep, hi, raised, 
                              recSteps, recMsgs, execd, episode, skipCnt, 
                              stack, st, k_, fact, newobs, skippedStep, oi_, 
                              tm, sc_, ep, phase, tstart, tend, d, oi, ii_, 
                              psb, k, s, ii_P, ii, cnt_, g, cnt_P, ts, cnt_E, 
                              N, cnt, sc, tseq, tts, teps, recv, iseq, its, 
                              ieps, ni_, cf, ni, ci, fo, rf, task, ctask >>

pp1(self) == /\ pc[self] = "pp1"
             /\ IF ConnAllowed(cstate[(NodeC(self).outs[oi[self]])]) \/ FALSE
                   THEN /\ cexq' = [cexq EXCEPT ![(NodeC(self).outs[oi[self]])] = Append(cexq[(NodeC(self).outs[oi[self]])], (Task("ts_input", sc_[self][1], tend[self], neps[self])))]
                   ELSE /\ TRUE
                        /\ cexq' = cexq
             /\ oi' = [oi EXCEPT ![self] = oi[self] + 1]
             /\ pc' = [pc EXCEPT ![self] = "pp1h"]
             /\ UNCHANGED << nstate, exq, neps, tick, psched, qtick, qsched, 
                             qendprev, qstart, sidx, stopFut, startFut, cstate, 
                             ctick, prevrecv, midx, qnext, qtsin, qzipd, qzipm, 
                             qmsgs, qexpsel, qexptm, qtsmax, qgrouped, 
                             cstopFut, fut, nf, qact, qobs, fobs, mustReset, 
                             initialStep, hi, raised, recSteps, recMsgs, execd, 
                             episode, skipCnt, stack, st, k_, fact, newobs, 
                             skippedStep, oi_, tm, sc_, ep, phase, tstart, 
                             tend, d, ii_, psb, k, s, ii_P, ii, cnt_, g, cnt_P, 
                             ts, cnt_E, N, cnt, sc, tseq, tts, teps, recv, 
                             iseq, its, ieps, ni_, cf, ni, ci, fo, rf, task, 
                             ctask >>

pp9(self) == /\ pc[self] = "pp9"
             /\ pc' = [pc EXCEPT ![self] = Head(stack[self]).pc]
             /\ tm' = [tm EXCEPT ![self] = Head(stack[self]).tm]
             /\ sc_' = [sc_ EXCEPT ![self] = Head(stack[self]).sc_]
             /\ ep' = [ep EXCEPT ![self] = Head(stack[self]).ep]
             /\ phase' = [phase EXCEPT ![self] = Head(stack[self]).phase]
             /\ tstart' = [tstart EXCEPT ![self] = Head(stack[self]).tstart]
             /\ tend' = [tend EXCEPT ![self] = Head(stack[self]).tend]
             /\ d' = [d EXCEPT ![self] = Head(stack[self]).d]
             /\ oi' = [oi EXCEPT ![self] = Head(stack[self]).oi]
             /\ ii_' = [ii_ EXCEPT ![self] = Head(stack[self]).ii_]
             /\ psb' = [psb EXCEPT ![self] = Head(stack[self]).psb]
             /\ stack' = [stack EXCEPT ![self] = Tail(stack[self])]
             /\ UNCHANGED << nstate, exq, neps, tick, psched, qtick, qsched, 
                             qendprev, qstart, sidx, stopFut, startFut, cstate, 
                             cexq, ctick, prevrecv, midx, qnext, qtsin, qzipd, 
                             qzipm, qmsgs, qexpsel, qexptm, qtsmax, qgrouped, 
                             cstopFut, fut, nf, qact, qobs, fobs, mustReset, 
                             initialStep, hi, raised, recSteps, recMsgs, execd, 
                             episode, skipCnt, st, k_, fact, newobs, 
                             skippedStep, oi_, k, s, ii_P, ii, cnt_, g, cnt_P, 
                             ts, cnt_E, N, cnt, sc, tseq, tts, teps, recv, 
                             iseq, its, ieps, ni_, cf, ni, ci, fo, rf, task, 
                             ctask >>

PushPhase(self) == pp0(self) \/ pp2(self) \/ pp3(self) \/ pp4(self)
                      \/ pp5(self) \/ pp6(self) \/ pp1h(self) \/ pp1(self)
                      \/ pp9(self)

ps0(self) == /\ pc[self] = "ps0"
             /\ IF qtick[self] > 0
                   THEN /\ qtick' = [qtick EXCEPT ![self] = qtick[self] - 1]
                        /\ k' = [k EXCEPT ![self] = tick[self]]
                        /\ tick' = [tick EXCEPT ![self] = tick[self] + 1]
                        /\ s' = [s EXCEPT ![self] = k'[self] * NodeC(self).period + Ph[self]]
                        /\ qsched' = [qsched EXCEPT ![self] = Append(qsched[self], <<k'[self], s'[self]>>)]
                        /\ stack' = [stack EXCEPT ![self] = << [ procedure |->  "PushPhase",
                                                                 pc        |->  "ps1",
                                                                 tm        |->  tm[self],
                                                                 sc_       |->  sc_[self],
                                                                 ep        |->  ep[self],
                                                                 phase     |->  phase[self],
                                                                 tstart    |->  tstart[self],
                                                                 tend      |->  tend[self],
                                                                 d         |->  d[self],
                                                                 oi        |->  oi[self],
                                                                 ii_       |->  ii_[self],
                                                                 psb       |->  psb[self] ] >>
                                                             \o stack[self]]
                        /\ tm' = [tm EXCEPT ![self] = 0]
                        /\ sc_' = [sc_ EXCEPT ![self] = <<>>]
                        /\ ep' = [ep EXCEPT ![self] = 0]
                        /\ phase' = [phase EXCEPT ![self] = 0]
                        /\ tstart' = [tstart EXCEPT ![self] = 0]
                        /\ tend' = [tend EXCEPT ![self] = 0]
                        /\ d' = [d EXCEPT ![self] = 0]
                        /\ oi' = [oi EXCEPT ![self] = 1]
                        /\ ii_' = [ii_ EXCEPT ![self] = 1]
                        /\ psb' = [psb EXCEPT ![self] = 0]
                        /\ pc' = [pc EXCEPT ![self] = "pp0"]
                   ELSE /\ pc' = [pc EXCEPT ![self] = "ps9"]
                        /\ UNCHANGED << tick, qtick, qsched, stack, tm, sc_, 
                                        ep, phase, tstart, tend, d, oi, ii_, 
                                        psb, k, s >>
             /\ UNCHANGED << nstate, exq, neps, psched, qendprev, qstart, sidx, 
                             stopFut, startFut, cstate, cexq, ctick, prevrecv, 
                             midx, qnext, qtsin, qzipd, qzipm, qmsgs, qexpsel, 
                             qexptm, qtsmax, qgrouped, cstopFut, fut, nf, qact, 
                             qobs, fobs, mustReset, initialStep, hi, raised, 
                             recSteps, recMsgs, execd, episode, skipCnt, st, 
                             k_, fact, newobs, skippedStep, oi_, ii_P, ii, 
                             cnt_, g, cnt_P, ts, cnt_E, N, cnt, sc, tseq, tts, 
                             teps, recv, iseq, its, ieps, ni_, cf, ni, ci, fo, 
                             rf, task, ctask >>

ps1(self) == /\ pc[self] = "ps1"
             /\ ii_P' = [ii_P EXCEPT ![self] = 1]
             /\ pc' = [pc EXCEPT ![self] = "ps2"]
             /\ UNCHANGED << nstate, exq, neps, tick, psched, qtick, qsched, 
                             qendprev, qstart, sidx, stopFut, startFut, cstate, 
                             cexq, ctick, prevrecv, midx, qnext, qtsin, qzipd, 
                             qzipm, qmsgs, qexpsel, qexptm, qtsmax, qgrouped, 
                             cstopFut, fut, nf, qact, qobs, fobs, mustReset, 
                             initialStep, hi, raised, recSteps, recMsgs, execd, 
                             episode, skipCnt, stack, st, k_, fact, newobs, 
                             skippedStep, oi_, tm, sc_, ep, phase, tstart, 
                             tend, d, oi, ii_, psb, k, s, ii, cnt_, g, cnt_P, 
                             ts, cnt_E, N, cnt, sc, tseq, tts, teps, recv, 
                             iseq, its, ieps, ni_, cf, ni, ci, fo, rf, task, 
                             ctask >>

ps2(self) == /\ pc[self] = "ps2"
             /\ IF ii_P[self] <= Len(BInsSeq(self))
                   THEN /\ qnext' = [qnext EXCEPT ![BInsSeq(self)[ii_P[self]]] = Append(qnext[BInsSeq(self)[ii_P[self]]], <<k[self], s[self]>>)]
                        /\ pc' = [pc EXCEPT ![self] = "ps3"]
                   ELSE /\ pc' = [pc EXCEPT ![self] = "ps9"]
                        /\ qnext' = qnext
             /\ UNCHANGED << nstate, exq, neps, tick, psched, qtick, qsched, 
                             qendprev, qstart, sidx, stopFut, startFut, cstate, 
                             cexq, ctick, prevrecv, midx, qtsin, qzipd, qzipm, 
                             qmsgs, qexpsel, qexptm, qtsmax, qgrouped, 
                             cstopFut, fut, nf, qact, qobs, fobs, mustReset, 
                             initialStep, hi, raised, recSteps, recMsgs, execd, 
                             episode, skipCnt, stack, st, k_, fact, newobs, 
                             skippedStep, oi_, tm, sc_, ep, phase, tstart, 
                             tend, d, oi, ii_, psb, k, s, ii_P, ii, cnt_, g, 
                             cnt_P, ts, cnt_E, N, cnt, sc, tseq, tts, teps, 
                             recv, iseq, its, ieps, ni_, cf, ni, ci, fo, rf, 
                             task, ctask >>

ps3(self) == /\ pc[self] = "ps3"
             /\ IF ConnAllowed(cstate[(BInsSeq(self)[ii_P[self]])]) \/ FALSE
                   THEN /\ cexq' = [cexq EXCEPT ![(BInsSeq(self)[ii_P[self]])] = Append(cexq[(BInsSeq(self)[ii_P[self]])], (Task("exp_blocking", 0, 0, 0)))]
                   ELSE /\ TRUE
                        /\ cexq' = cexq
             /\ ii_P' = [ii_P EXCEPT ![self] = ii_P[self] + 1]
             /\ pc' = [pc EXCEPT ![self] = "ps2"]
             /\ UNCHANGED << nstate, exq, neps, tick, psched, qtick, qsched, 
                             qendprev, qstart, sidx, stopFut, startFut, cstate, 
                             ctick, prevrecv, midx, qnext, qtsin, qzipd, qzipm, 
                             qmsgs, qexpsel, qexptm, qtsmax, qgrouped, 
                             cstopFut, fut, nf, qact, qobs, fobs, mustReset, 
                             initialStep, hi, raised, recSteps, recMsgs, execd, 
                             episode, skipCnt, stack, st, k_, fact, newobs, 
                             skippedStep, oi_, tm, sc_, ep, phase, tstart, 
                             tend, d, oi, ii_, psb, k, s, ii, cnt_, g, cnt_P, 
                             ts, cnt_E, N, cnt, sc, tseq, tts, teps, recv, 
                             iseq, its, ieps, ni_, cf, ni, ci, fo, rf, task, 
                             ctask >>

ps9(self) == /\ pc[self] = "ps9"
             /\ pc' = [pc EXCEPT ![self] = Head(stack[self]).pc]
             /\ k' = [k EXCEPT ![self] = Head(stack[self]).k]
             /\ s' = [s EXCEPT ![self] = Head(stack[self]).s]
             /\ ii_P' = [ii_P EXCEPT ![self] = Head(stack[self]).ii_P]
             /\ stack' = [stack EXCEPT ![self] = Tail(stack[self])]
             /\ UNCHANGED << nstate, exq, neps, tick, psched, qtick, qsched, 
                             qendprev, qstart, sidx, stopFut, startFut, cstate, 
                             cexq, ctick, prevrecv, midx, qnext, qtsin, qzipd, 
                             qzipm, qmsgs, qexpsel, qexptm, qtsmax, qgrouped, 
                             cstopFut, fut, nf, qact, qobs, fobs, mustReset, 
                             initialStep, hi, raised, recSteps, recMsgs, execd, 
                             episode, skipCnt, st, k_, fact, newobs, 
                             skippedStep, oi_, tm, sc_, ep, phase, tstart, 
                             tend, d, oi, ii_, psb, ii, cnt_, g, cnt_P, ts, 
                             cnt_E, N, cnt, sc, tseq, tts, teps, recv, iseq, 
                             its, ieps, ni_, cf, ni, ci, fo, rf, task, ctask >>

PushSched(self) == ps0(self) \/ ps1(self) \/ ps2(self) \/ ps3(self)
                      \/ ps9(self)

ns0(self) == /\ pc[self] = "ns0"
             /\ IF ii[self] <= Len(NodeC(self).ins)
                   THEN /\ pc' = [pc EXCEPT ![self] = "ns1"]
                   ELSE /\ pc' = [pc EXCEPT ![self] = "ns3"]
             /\ UNCHANGED << nstate, exq, neps, tick, psched, qtick, qsched, 
                             qendprev, qstart, sidx, stopFut, startFut, cstate, 
                             cexq, ctick, prevrecv, midx, qnext, qtsin, qzipd, 
                             qzipm, qmsgs, qexpsel, qexptm, qtsmax, qgrouped, 
                             cstopFut, fut, nf, qact, qobs, fobs, mustReset, 
                             initialStep, hi, raised, recSteps, recMsgs, execd, 
                             episode, skipCnt, stack, st, k_, fact, newobs, 
                             skippedStep, oi_, tm, sc_, ep, phase, tstart, 
                             tend, d, oi, ii_, psb, k, s, ii_P, ii, cnt_, g, 
                             cnt_P, ts, cnt_E, N, cnt, sc, tseq, tts, teps, 
                             recv, iseq, its, ieps, ni_, cf, ni, ci, fo, rf, 
                             task, ctask >>

ns1(self) == /\ pc[self] = "ns1"
             /\ cstate' = [cstate EXCEPT ![NodeC(self).ins[ii[self]]] = "STOPPING"]
             /\ cexq' = [cexq EXCEPT ![NodeC(self).ins[ii[self]]] = Append(cexq[NodeC(self).ins[ii[self]]], Task("cstopping", 0, 0, 0))]
             /\ cstopFut' = [cstopFut EXCEPT ![NodeC(self).ins[ii[self]]] = "pending"]
             /\ pc' = [pc EXCEPT ![self] = "ns2"]
             /\ UNCHANGED << nstate, exq, neps, tick, psched, qtick, qsched, 
                             qendprev, qstart, sidx, stopFut, startFut, ctick, 
                             prevrecv, midx, qnext, qtsin, qzipd, qzipm, qmsgs, 
                             qexpsel, qexptm, qtsmax, qgrouped, fut, nf, qact, 
                             qobs, fobs, mustReset, initialStep, hi, raised, 
                             recSteps, recMsgs, execd, episode, skipCnt, stack, 
                             st, k_, fact, newobs, skippedStep, oi_, tm, sc_, 
                             ep, phase, tstart, tend, d, oi, ii_, psb, k, s, 
                             ii_P, ii, cnt_, g, cnt_P, ts, cnt_E, N, cnt, sc, 
                             tseq, tts, teps, recv, iseq, its, ieps, ni_, cf, 
                             ni, ci, fo, rf, task, ctask >>

ns2(self) == /\ pc[self] = "ns2"
             /\ cstopFut[NodeC(self).ins[ii[self]]] = "done"
             /\ ii' = [ii EXCEPT ![self] = ii[self] + 1]
             /\ pc' = [pc EXCEPT ![self] = "ns0"]
             /\ UNCHANGED << nstate, exq, neps, tick, psched, qtick, qsched, 
                             qendprev, qstart, sidx, stopFut, startFut, cstate, 
                             cexq, ctick, prevrecv, midx, qnext, qtsin, qzipd, 
                             qzipm, qmsgs, qexpsel, qexptm, qtsmax, qgrouped, 
                             cstopFut, fut, nf, qact, qobs, fobs, mustReset, 
                             initialStep, hi, raised, recSteps, recMsgs, execd, 
                             episode, skipCnt, stack, st, k_, fact, newobs, 
                             skippedStep, oi_, tm, sc_, ep, phase, tstart, 
                             tend, d, oi, ii_, psb, k, s, ii_P, cnt_, g, cnt_P, 
                             ts, cnt_E, N, cnt, sc, tseq, tts, teps, recv, 
                             iseq, its, ieps, ni_, cf, ni, ci, fo, rf, task, 
                             ctask >>

ns3(self) == /\ pc[self] = "ns3"
             /\ nstate' = [nstate EXCEPT ![self] = "STOPPED"]
             /\ stopFut' = [stopFut EXCEPT ![self] = "done"]
             /\ pc' = [pc EXCEPT ![self] = Head(stack[self]).pc]
             /\ ii' = [ii EXCEPT ![self] = Head(stack[self]).ii]
             /\ stack' = [stack EXCEPT ![self] = Tail(stack[self])]
             /\ UNCHANGED << exq, neps, tick, psched, qtick, qsched, qendprev, 
                             qstart, sidx, startFut, cstate, cexq, ctick, 
                             prevrecv, midx, qnext, qtsin, qzipd, qzipm, qmsgs, 
                             qexpsel, qexptm, qtsmax, qgrouped, cstopFut, fut, 
                             nf, qact, qobs, fobs, mustReset, initialStep, hi, 
                             raised, recSteps, recMsgs, execd, episode, 
                             skipCnt, st, k_, fact, newobs, skippedStep, oi_, 
                             tm, sc_, ep, phase, tstart, tend, d, oi, ii_, psb, 
                             k, s, ii_P, cnt_, g, cnt_P, ts, cnt_E, N, cnt, sc, 
                             tseq, tts, teps, recv, iseq, its, ieps, ni_, cf, 
                             ni, ci, fo, rf, task, ctask >>

NodeStopping(self) == ns0(self) \/ ns1(self) \/ ns2(self) \/ ns3(self)

sel0(self) == /\ pc[self] = "sel0"
              /\ IF qexpsel[self] # <<>> /\ Len(qmsgs[self]) >= Head(qexpsel[self])[2]
                    THEN /\ cnt_' = [cnt_ EXCEPT ![self] = Head(qexpsel[self])[2]]
                         /\ qexpsel' = [qexpsel EXCEPT ![self] = Tail(qexpsel[self])]
                         /\ g' = [g EXCEPT ![self] = SubSeq(qmsgs[self], 1, cnt_'[self])]
                         /\ qmsgs' = [qmsgs EXCEPT ![self] = SubSeq(qmsgs[self], cnt_'[self] + 1, Len(qmsgs[self]))]
                         /\ recMsgs' = [recMsgs EXCEPT ![self] = recMsgs[self] \o [i \in 1..cnt_'[self] |-> [out |-> g'[self][i][1], in |-> ctick[self], sent |-> g'[self][i][2], recv |-> g'[self][i][3], eps |-> neps[ConnC(self).dst]]]]
                         /\ ctick' = [ctick EXCEPT ![self] = ctick[self] + 1]
                         /\ qgrouped' = [qgrouped EXCEPT ![self] = Append(qgrouped[self], LastN(g'[self], ConnC(self).window))]
                         /\ pc' = [pc EXCEPT ![self] = "sel1"]
                    ELSE /\ pc' = [pc EXCEPT ![self] = "sel9"]
                         /\ UNCHANGED << ctick, qmsgs, qexpsel, qgrouped, 
                                         recMsgs, cnt_, g >>
              /\ UNCHANGED << nstate, exq, neps, tick, psched, qtick, qsched, 
                              qendprev, qstart, sidx, stopFut, startFut, 
                              cstate, cexq, prevrecv, midx, qnext, qtsin, 
                              qzipd, qzipm, qexptm, qtsmax, cstopFut, fut, nf, 
                              qact, qobs, fobs, mustReset, initialStep, hi, 
                              raised, recSteps, execd, episode, skipCnt, stack, 
                              st, k_, fact, newobs, skippedStep, oi_, tm, sc_, 
                              ep, phase, tstart, tend, d, oi, ii_, psb, k, s, 
                              ii_P, ii, cnt_P, ts, cnt_E, N, cnt, sc, tseq, 
                              tts, teps, recv, iseq, its, ieps, ni_, cf, ni, 
                              ci, fo, rf, task, ctask >>

sel1(self) == /\ pc[self] = "sel1"
              /\ IF NodeAllowed(nstate[(ConnC(self).dst)]) \/ FALSE
                    THEN /\ exq' = [exq EXCEPT ![(ConnC(self).dst)] = Append(exq[(ConnC(self).dst)], (Task("push_step", 0, 0, 0)))]
                    ELSE /\ TRUE
                         /\ exq' = exq
              /\ pc' = [pc EXCEPT ![self] = "sel9"]
              /\ UNCHANGED << nstate, neps, tick, psched, qtick, qsched, 
                              qendprev, qstart, sidx, stopFut, startFut, 
                              cstate, cexq, ctick, prevrecv, midx, qnext, 
                              qtsin, qzipd, qzipm, qmsgs, qexpsel, qexptm, 
                              qtsmax, qgrouped, cstopFut, fut, nf, qact, qobs, 
                              fobs, mustReset, initialStep, hi, raised, 
                              recSteps, recMsgs, execd, episode, skipCnt, 
                              stack, st, k_, fact, newobs, skippedStep, oi_, 
                              tm, sc_, ep, phase, tstart, tend, d, oi, ii_, 
                              psb, k, s, ii_P, ii, cnt_, g, cnt_P, ts, cnt_E, 
                              N, cnt, sc, tseq, tts, teps, recv, iseq, its, 
                              ieps, ni_, cf, ni, ci, fo, rf, task, ctask >>

sel9(self) == /\ pc[self] = "sel9"
              /\ pc' = [pc EXCEPT ![self] = Head(stack[self]).pc]
              /\ cnt_' = [cnt_ EXCEPT ![self] = Head(stack[self]).cnt_]
              /\ g' = [g EXCEPT ![self] = Head(stack[self]).g]
              /\ stack' = [stack EXCEPT ![self] = Tail(stack[self])]
              /\ UNCHANGED << nstate, exq, neps, tick, psched, qtick, qsched, 
                              qendprev, qstart, sidx, stopFut, startFut, 
                              cstate, cexq, ctick, prevrecv, midx, qnext, 
                              qtsin, qzipd, qzipm, qmsgs, qexpsel, qexptm, 
                              qtsmax, qgrouped, cstopFut, fut, nf, qact, qobs, 
                              fobs, mustReset, initialStep, hi, raised, 
                              recSteps, recMsgs, execd, episode, skipCnt, st, 
                              k_, fact, newobs, skippedStep, oi_, tm, sc_, ep, 
                              phase, tstart, tend, d, oi, ii_, psb, k, s, ii_P, 
                              ii, cnt_P, ts, cnt_E, N, cnt, sc, tseq, tts, 
                              teps, recv, iseq, its, ieps, ni_, cf, ni, ci, fo, 
                              rf, task, ctask >>

PushSelection(self) == sel0(self) \/ sel1(self) \/ sel9(self)

tm0(self) == /\ pc[self] = "tm0"
             /\ IF qexptm[self] # <<>> /\ Head(qexptm[self]) <= Len(qtsin[self])
                   THEN /\ cnt_P' = [cnt_P EXCEPT ![self] = Head(qexptm[self])]
                        /\ qexptm' = [qexptm EXCEPT ![self] = Tail(qexptm[self])]
                        /\ qtsmax' = [qtsmax EXCEPT ![self] = Append(qtsmax[self], MaxSet({0} \cup {qtsin[self][i][2] : i \in 1..cnt_P'[self]}))]
                        /\ qtsin' = [qtsin EXCEPT ![self] = SubSeq(qtsin[self], cnt_P'[self] + 1, Len(qtsin[self]))]
                        /\ pc' = [pc EXCEPT ![self] = "tm1"]
                   ELSE /\ pc' = [pc EXCEPT ![self] = "tm9"]
                        /\ UNCHANGED << qtsin, qexptm, qtsmax, cnt_P >>
             /\ UNCHANGED << nstate, exq, neps, tick, psched, qtick, qsched, 
                             qendprev, qstart, sidx, stopFut, startFut, cstate, 
                             cexq, ctick, prevrecv, midx, qnext, qzipd, qzipm, 
                             qmsgs, qexpsel, qgrouped, cstopFut, fut, nf, qact, 
                             qobs, fobs, mustReset, initialStep, hi, raised, 
                             recSteps, recMsgs, execd, episode, skipCnt, stack, 
                             st, k_, fact, newobs, skippedStep, oi_, tm, sc_, 
                             ep, phase, tstart, tend, d, oi, ii_, psb, k, s, 
                             ii_P, ii, cnt_, g, ts, cnt_E, N, cnt, sc, tseq, 
                             tts, teps, recv, iseq, its, ieps, ni_, cf, ni, ci, 
                             fo, rf, task, ctask >>

tm1(self) == /\ pc[self] = "tm1"
             /\ IF NodeAllowed(nstate[(ConnC(self).dst)]) \/ FALSE
                   THEN /\ exq' = [exq EXCEPT ![(ConnC(self).dst)] = Append(exq[(ConnC(self).dst)], (Task("push_phase", 0, 0, 0)))]
                   ELSE /\ TRUE
                        /\ exq' = exq
             /\ pc' = [pc EXCEPT ![self] = "tm9"]
             /\ UNCHANGED << nstate, neps, tick, psched, qtick, qsched, 
                             qendprev, qstart, sidx, stopFut, startFut, cstate, 
                             cexq, ctick, prevrecv, midx, qnext, qtsin, qzipd, 
                             qzipm, qmsgs, qexpsel, qexptm, qtsmax, qgrouped, 
                             cstopFut, fut, nf, qact, qobs, fobs, mustReset, 
                             initialStep, hi, raised, recSteps, recMsgs, execd, 
                             episode, skipCnt, stack, st, k_, fact, newobs, 
                             skippedStep, oi_, tm, sc_, ep, phase, tstart, 
                             tend, d, oi, ii_, psb, k, s, ii_P, ii, cnt_, g, 
                             cnt_P, ts, cnt_E, N, cnt, sc, tseq, tts, teps, 
                             recv, iseq, its, ieps, ni_, cf, ni, ci, fo, rf, 
                             task, ctask >>

tm9(self) == /\ pc[self] = "tm9"
             /\ pc' = [pc EXCEPT ![self] = Head(stack[self]).pc]
             /\ cnt_P' = [cnt_P EXCEPT ![self] = Head(stack[self]).cnt_P]
             /\ stack' = [stack EXCEPT ![self] = Tail(stack[self])]
             /\ UNCHANGED << nstate, exq, neps, tick, psched, qtick, qsched, 
                             qendprev, qstart, sidx, stopFut, startFut, cstate, 
                             cexq, ctick, prevrecv, midx, qnext, qtsin, qzipd, 
                             qzipm, qmsgs, qexpsel, qexptm, qtsmax, qgrouped, 
                             cstopFut, fut, nf, qact, qobs, fobs, mustReset, 
                             initialStep, hi, raised, recSteps, recMsgs, execd, 
                             episode, skipCnt, st, k_, fact, newobs, 
                             skippedStep, oi_, tm, sc_, ep, phase, tstart, 
                             tend, d, oi, ii_, psb, k, s, ii_P, ii, cnt_, g, 
                             ts, cnt_E, N, cnt, sc, tseq, tts, teps, recv, 
                             iseq, its, ieps, ni_, cf, ni, ci, fo, rf, task, 
                             ctask >>

PushTsMax(self) == tm0(self) \/ tm1(self) \/ tm9(self)

zp0(self) == /\ pc[self] = "zp0"
             /\ IF qzipm[self] # <<>> /\ qzipd[self] # <<>>
                   THEN /\ qmsgs' = [qmsgs EXCEPT ![self] = Append(qmsgs[self], <<Head(qzipm[self])[1], Head(qzipm[self])[2], Head(qzipm[self])[2] + Head(qzipd[self])>>)]
                        /\ qzipm' = [qzipm EXCEPT ![self] = Tail(qzipm[self])]
                        /\ qzipd' = [qzipd EXCEPT ![self] = Tail(qzipd[self])]
                        /\ stack' = [stack EXCEPT ![self] = << [ procedure |->  "PushSelection",
                                                                 pc        |->  "zp9",
                                                                 cnt_      |->  cnt_[self],
                                                                 g         |->  g[self] ] >>
                                                             \o stack[self]]
                        /\ cnt_' = [cnt_ EXCEPT ![self] = 0]
                        /\ g' = [g EXCEPT ![self] = <<>>]
                        /\ pc' = [pc EXCEPT ![self] = "sel0"]
                   ELSE /\ pc' = [pc EXCEPT ![self] = "zp9"]
                        /\ UNCHANGED << qzipd, qzipm, qmsgs, stack, cnt_, g >>
             /\ UNCHANGED << nstate, exq, neps, tick, psched, qtick, qsched, 
                             qendprev, qstart, sidx, stopFut, startFut, cstate, 
                             cexq, ctick, prevrecv, midx, qnext, qtsin, 
                             qexpsel, qexptm, qtsmax, qgrouped, cstopFut, fut, 
                             nf, qact, qobs, fobs, mustReset, initialStep, hi, 
                             raised, recSteps, recMsgs, execd, episode, 
                             skipCnt, st, k_, fact, newobs, skippedStep, oi_, 
                             tm, sc_, ep, phase, tstart, tend, d, oi, ii_, psb, 
                             k, s, ii_P, ii, cnt_P, ts, cnt_E, N, cnt, sc, 
                             tseq, tts, teps, recv, iseq, its, ieps, ni_, cf, 
                             ni, ci, fo, rf, task, ctask >>

zp9(self) == /\ pc[self] = "zp9"
             /\ pc' = [pc EXCEPT ![self] = Head(stack[self]).pc]
             /\ stack' = [stack EXCEPT ![self] = Tail(stack[self])]
             /\ UNCHANGED << nstate, exq, neps, tick, psched, qtick, qsched, 
                             qendprev, qstart, sidx, stopFut, startFut, cstate, 
                             cexq, ctick, prevrecv, midx, qnext, qtsin, qzipd, 
                             qzipm, qmsgs, qexpsel, qexptm, qtsmax, qgrouped, 
                             cstopFut, fut, nf, qact, qobs, fobs, mustReset, 
                             initialStep, hi, raised, recSteps, recMsgs, execd, 
                             episode, skipCnt, st, k_, fact, newobs, 
                             skippedStep, oi_, tm, sc_, ep, phase, tstart, 
                             tend, d, oi, ii_, psb, k, s, ii_P, ii, cnt_, g, 
                             cnt_P, ts, cnt_E, N, cnt, sc, tseq, tts, teps, 
                             recv, iseq, its, ieps, ni_, cf, ni, ci, fo, rf, 
                             task, ctask >>

PushZip(self) == zp0(self) \/ zp9(self)

en0(self) == /\ pc[self] = "en0"
             /\ IF qnext[self] # <<>> /\ qtsin[self] # <<>>
                   THEN /\ ts' = [ts EXCEPT ![self] = Head(qnext[self])[2]]
                        /\ IF HasFuture(qtsin[self], ts'[self])
                              THEN /\ qnext' = [qnext EXCEPT ![self] = Tail(qnext[self])]
                                   /\ cnt_E' = [cnt_E EXCEPT ![self] = CountPrefix(self, qtsin[self], ts'[self])]
                                   /\ qtsin' = [qtsin EXCEPT ![self] = SubSeq(qtsin[self], cnt_E'[self] + 1, Len(qtsin[self]))]
                                   /\ qexpsel' = [qexpsel EXCEPT ![self] = Append(qexpsel[self], <<ts'[self], cnt_E'[self]>>)]
                                   /\ stack' = [stack EXCEPT ![self] = << [ procedure |->  "PushSelection",
                                                                            pc        |->  "en9",
                                                                            cnt_      |->  cnt_[self],
                                                                            g         |->  g[self] ] >>
                                                                        \o stack[self]]
                                   /\ cnt_' = [cnt_ EXCEPT ![self] = 0]
                                   /\ g' = [g EXCEPT ![self] = <<>>]
                                   /\ pc' = [pc EXCEPT ![self] = "sel0"]
                              ELSE /\ pc' = [pc EXCEPT ![self] = "en9"]
                                   /\ UNCHANGED << qnext, qtsin, qexpsel, 
                                                   stack, cnt_, g, cnt_E >>
                   ELSE /\ pc' = [pc EXCEPT ![self] = "en9"]
                        /\ UNCHANGED << qnext, qtsin, qexpsel, stack, cnt_, g, 
                                        ts, cnt_E >>
             /\ UNCHANGED << nstate, exq, neps, tick, psched, qtick, qsched, 
                             qendprev, qstart, sidx, stopFut, startFut, cstate, 
                             cexq, ctick, prevrecv, midx, qzipd, qzipm, qmsgs, 
                             qexptm, qtsmax, qgrouped, cstopFut, fut, nf, qact, 
                             qobs, fobs, mustReset, initialStep, hi, raised, 
                             recSteps, recMsgs, execd, episode, skipCnt, st, 
                             k_, fact, newobs, skippedStep, oi_, tm, sc_, ep, 
                             phase, tstart, tend, d, oi, ii_, psb, k, s, ii_P, 
                             ii, cnt_P, N, cnt, sc, tseq, tts, teps, recv, 
                             iseq, its, ieps, ni_, cf, ni, ci, fo, rf, task, 
                             ctask >>

en9(self) == /\ pc[self] = "en9"
             /\ pc' = [pc EXCEPT ![self] = Head(stack[self]).pc]
             /\ ts' = [ts EXCEPT ![self] = Head(stack[self]).ts]
             /\ cnt_E' = [cnt_E EXCEPT ![self] = Head(stack[self]).cnt_E]
             /\ stack' = [stack EXCEPT ![self] = Tail(stack[self])]
             /\ UNCHANGED << nstate, exq, neps, tick, psched, qtick, qsched, 
                             qendprev, qstart, sidx, stopFut, startFut, cstate, 
                             cexq, ctick, prevrecv, midx, qnext, qtsin, qzipd, 
                             qzipm, qmsgs, qexpsel, qexptm, qtsmax, qgrouped, 
                             cstopFut, fut, nf, qact, qobs, fobs, mustReset, 
                             initialStep, hi, raised, recSteps, recMsgs, execd, 
                             episode, skipCnt, st, k_, fact, newobs, 
                             skippedStep, oi_, tm, sc_, ep, phase, tstart, 
                             tend, d, oi, ii_, psb, k, s, ii_P, ii, cnt_, g, 
                             cnt_P, N, cnt, sc, tseq, tts, teps, recv, iseq, 
                             its, ieps, ni_, cf, ni, ci, fo, rf, task, ctask >>

ExpNonblocking(self) == en0(self) \/ en9(self)

eb0(self) == /\ pc[self] = "eb0"
             /\ IF qnext[self] # <<>>
                   THEN /\ N' = [N EXCEPT ![self] = Head(qnext[self])[1]]
                        /\ sc' = [sc EXCEPT ![self] = Head(qnext[self])[2]]
                        /\ qnext' = [qnext EXCEPT ![self] = Tail(qnext[self])]
                        /\ cnt' = [cnt EXCEPT ![self] = BlockCnt(self, N'[self])]
                        /\ qexptm' = [qexptm EXCEPT ![self] = Append(qexptm[self], cnt'[self])]
                        /\ stack' = [stack EXCEPT ![self] = << [ procedure |->  "PushTsMax",
                                                                 pc        |->  "eb1",
                                                                 cnt_P     |->  cnt_P[self] ] >>
                                                             \o stack[self]]
                        /\ cnt_P' = [cnt_P EXCEPT ![self] = 0]
                        /\ pc' = [pc EXCEPT ![self] = "tm0"]
                   ELSE /\ pc' = [pc EXCEPT ![self] = "eb9"]
                        /\ UNCHANGED << qnext, qexptm, stack, cnt_P, N, cnt, 
                                        sc >>
             /\ UNCHANGED << nstate, exq, neps, tick, psched, qtick, qsched, 
                             qendprev, qstart, sidx, stopFut, startFut, cstate, 
                             cexq, ctick, prevrecv, midx, qtsin, qzipd, qzipm, 
                             qmsgs, qexpsel, qtsmax, qgrouped, cstopFut, fut, 
                             nf, qact, qobs, fobs, mustReset, initialStep, hi, 
                             raised, recSteps, recMsgs, execd, episode, 
                             skipCnt, st, k_, fact, newobs, skippedStep, oi_, 
                             tm, sc_, ep, phase, tstart, tend, d, oi, ii_, psb, 
                             k, s, ii_P, ii, cnt_, g, ts, cnt_E, tseq, tts, 
                             teps, recv, iseq, its, ieps, ni_, cf, ni, ci, fo, 
                             rf, task, ctask >>

eb1(self) == /\ pc[self] = "eb1"
             /\ qexpsel' = [qexpsel EXCEPT ![self] = Append(qexpsel[self], <<sc[self], cnt[self]>>)]
             /\ stack' = [stack EXCEPT ![self] = << [ procedure |->  "PushSelection",
                                                      pc        |->  "eb9",
                                                      cnt_      |->  cnt_[self],
                                                      g         |->  g[self] ] >>
                                                  \o stack[self]]
             /\ cnt_' = [cnt_ EXCEPT ![self] = 0]
             /\ g' = [g EXCEPT ![self] = <<>>]
             /\ pc' = [pc EXCEPT ![self] = "sel0"]
             /\ UNCHANGED << nstate, exq, neps, tick, psched, qtick, qsched, 
                             qendprev, qstart, sidx, stopFut, startFut, cstate, 
                             cexq, ctick, prevrecv, midx, qnext, qtsin, qzipd, 
                             qzipm, qmsgs, qexptm, qtsmax, qgrouped, cstopFut, 
                             fut, nf, qact, qobs, fobs, mustReset, initialStep, 
                             hi, raised, recSteps, recMsgs, execd, episode, 
                             skipCnt, st, k_, fact, newobs, skippedStep, oi_, 
                             tm, sc_, ep, phase, tstart, tend, d, oi, ii_, psb, 
                             k, s, ii_P, ii, cnt_P, ts, cnt_E, N, cnt, sc, 
                             tseq, tts, teps, recv, iseq, its, ieps, ni_, cf, 
                             ni, ci, fo, rf, task, ctask >>

eb9(self) == /\ pc[self] = "eb9"
             /\ pc' = [pc EXCEPT ![self] = Head(stack[self]).pc]
             /\ N' = [N EXCEPT ![self] = Head(stack[self]).N]
             /\ cnt' = [cnt EXCEPT ![self] = Head(stack[self]).cnt]
             /\ sc' = [sc EXCEPT ![self] = Head(stack[self]).sc]
             /\ stack' = [stack EXCEPT ![self] = Tail(stack[self])]
             /\ UNCHANGED << nstate, exq, neps, tick, psched, qtick, qsched, 
                             qendprev, qstart, sidx, stopFut, startFut, cstate, 
                             cexq, ctick, prevrecv, midx, qnext, qtsin, qzipd, 
                             qzipm, qmsgs, qexpsel, qexptm, qtsmax, qgrouped, 
                             cstopFut, fut, nf, qact, qobs, fobs, mustReset, 
                             initialStep, hi, raised, recSteps, recMsgs, execd, 
                             episode, skipCnt, st, k_, fact, newobs, 
                             skippedStep, oi_, tm, sc_, ep, phase, tstart, 
                             tend, d, oi, ii_, psb, k, s, ii_P, ii, cnt_, g, 
                             cnt_P, ts, cnt_E, tseq, tts, teps, recv, iseq, 
                             its, ieps, ni_, cf, ni, ci, fo, rf, task, ctask >>

ExpBlocking(self) == eb0(self) \/ eb1(self) \/ eb9(self)

ti0(self) == /\ pc[self] = "ti0"
             /\ IF ConnAllowed(cstate[self]) /\ teps[self] = neps[ConnC(self).dst]
                   THEN /\ midx' = [midx EXCEPT ![self] = midx[self] + 1]
                        /\ recv' = [recv EXCEPT ![self] = Max2(tts[self] + Cfg.mstream[self][midx'[self]], prevrecv[self])]
                        /\ prevrecv' = [prevrecv EXCEPT ![self] = recv'[self]]
                        /\ qzipd' = [qzipd EXCEPT ![self] = Append(qzipd[self], recv'[self] - tts[self])]
                        /\ stack' = [stack EXCEPT ![self] = << [ procedure |->  "PushZip",
                                                                 pc        |->  "ti1" ] >>
                                                             \o stack[self]]
                        /\ pc' = [pc EXCEPT ![self] = "zp0"]
                   ELSE /\ pc' = [pc EXCEPT ![self] = "ti9"]
                        /\ UNCHANGED << prevrecv, midx, qzipd, stack, recv >>
             /\ UNCHANGED << nstate, exq, neps, tick, psched, qtick, qsched, 
                             qendprev, qstart, sidx, stopFut, startFut, cstate, 
                             cexq, ctick, qnext, qtsin, qzipm, qmsgs, qexpsel, 
                             qexptm, qtsmax, qgrouped, cstopFut, fut, nf, qact, 
                             qobs, fobs, mustReset, initialStep, hi, raised, 
                             recSteps, recMsgs, execd, episode, skipCnt, st, 
                             k_, fact, newobs, skippedStep, oi_, tm, sc_, ep, 
                             phase, tstart, tend, d, oi, ii_, psb, k, s, ii_P, 
                             ii, cnt_, g, cnt_P, ts, cnt_E, N, cnt, sc, tseq, 
                             tts, teps, iseq, its, ieps, ni_, cf, ni, ci, fo, 
                             rf, task, ctask >>

ti1(self) == /\ pc[self] = "ti1"
             /\ qtsin' = [qtsin EXCEPT ![self] = Append(qtsin[self], <<tseq[self], recv[self]>>)]
             /\ IF ConnC(self).blocking
                   THEN /\ stack' = [stack EXCEPT ![self] = << [ procedure |->  "PushTsMax",
                                                                 pc        |->  "ti9",
                                                                 cnt_P     |->  cnt_P[self] ] >>
                                                             \o stack[self]]
                        /\ cnt_P' = [cnt_P EXCEPT ![self] = 0]
                        /\ pc' = [pc EXCEPT ![self] = "tm0"]
                        /\ UNCHANGED << ts, cnt_E >>
                   ELSE /\ stack' = [stack EXCEPT ![self] = << [ procedure |->  "ExpNonblocking",
                                                                 pc        |->  "ti9",
                                                                 ts        |->  ts[self],
                                                                 cnt_E     |->  cnt_E[self] ] >>
                                                             \o stack[self]]
                        /\ ts' = [ts EXCEPT ![self] = 0]
                        /\ cnt_E' = [cnt_E EXCEPT ![self] = 0]
                        /\ pc' = [pc EXCEPT ![self] = "en0"]
                        /\ cnt_P' = cnt_P
             /\ UNCHANGED << nstate, exq, neps, tick, psched, qtick, qsched, 
                             qendprev, qstart, sidx, stopFut, startFut, cstate, 
                             cexq, ctick, prevrecv, midx, qnext, qzipd, qzipm, 
                             qmsgs, qexpsel, qexptm, qtsmax, qgrouped, 
                             cstopFut, fut, nf, qact, qobs, fobs, mustReset, 
                             initialStep, hi, raised, recSteps, recMsgs, execd, 
                             episode, skipCnt, st, k_, fact, newobs, 
                             skippedStep, oi_, tm, sc_, ep, phase, tstart, 
                             tend, d, oi, ii_, psb, k, s, ii_P, ii, cnt_, g, N, 
                             cnt, sc, tseq, tts, teps, recv, iseq, its, ieps, 
                             ni_, cf, ni, ci, fo, rf, task, ctask >>

ti9(self) == /\ pc[self] = "ti9"
             /\ pc' = [pc EXCEPT ![self] = Head(stack[self]).pc]
             /\ recv' = [recv EXCEPT ![self] = Head(stack[self]).recv]
             /\ tseq' = [tseq EXCEPT ![self] = Head(stack[self]).tseq]
             /\ tts' = [tts EXCEPT ![self] = Head(stack[self]).tts]
             /\ teps' = [teps EXCEPT ![self] = Head(stack[self]).teps]
             /\ stack' = [stack EXCEPT ![self] = Tail(stack[self])]
             /\ UNCHANGED << nstate, exq, neps, tick, psched, qtick, qsched, 
                             qendprev, qstart, sidx, stopFut, startFut, cstate, 
                             cexq, ctick, prevrecv, midx, qnext, qtsin, qzipd, 
                             qzipm, qmsgs, qexpsel, qexptm, qtsmax, qgrouped, 
                             cstopFut, fut, nf, qact, qobs, fobs, mustReset, 
                             initialStep, hi, raised, recSteps, recMsgs, execd, 
                             episode, skipCnt, st, k_, fact, newobs, 
                             skippedStep, oi_, tm, sc_, ep, phase, tstart, 
                             tend, d, oi, ii_, psb, k, s, ii_P, ii, cnt_, g, 
                             cnt_P, ts, cnt_E, N, cnt, sc, iseq, its, ieps, 
                             ni_, cf, ni, ci, fo, rf, task, ctask >>

TsInput(self) == ti0(self) \/ ti1(self) \/ ti9(self)

mi0(self) == /\ pc[self] = "mi0"
             /\ IF ConnAllowed(cstate[self]) /\ ieps[self] = neps[ConnC(self).dst]
                   THEN /\ qzipm' = [qzipm EXCEPT ![self] = Append(qzipm[self], <<iseq[self], its[self]>>)]
                        /\ stack' = [stack EXCEPT ![self] = << [ procedure |->  "PushZip",
                                                                 pc        |->  "mi9" ] >>
                                                             \o stack[self]]
                        /\ pc' = [pc EXCEPT ![self] = "zp0"]
                   ELSE /\ pc' = [pc EXCEPT ![self] = "mi9"]
                        /\ UNCHANGED << qzipm, stack >>
             /\ UNCHANGED << nstate, exq, neps, tick, psched, qtick, qsched, 
                             qendprev, qstart, sidx, stopFut, startFut, cstate, 
                             cexq, ctick, prevrecv, midx, qnext, qtsin, qzipd, 
                             qmsgs, qexpsel, qexptm, qtsmax, qgrouped, 
                             cstopFut, fut, nf, qact, qobs, fobs, mustReset, 
                             initialStep, hi, raised, recSteps, recMsgs, execd, 
                             episode, skipCnt, st, k_, fact, newobs, 
                             skippedStep, oi_, tm, sc_, ep, phase, tstart, 
                             tend, d, oi, ii_, psb, k, s, ii_P, ii, cnt_, g, 
                             cnt_P, ts, cnt_E, N, cnt, sc, tseq, tts, teps, 
                             recv, iseq, its, ieps, ni_, cf, ni, ci, fo, rf, 
                             task, ctask >>

mi9(self) == /\ pc[self] = "mi9"
             /\ pc' = [pc EXCEPT ![self] = Head(stack[self]).pc]
             /\ iseq' = [iseq EXCEPT ![self] = Head(stack[self]).iseq]
             /\ its' = [its EXCEPT ![self] = Head(stack[self]).its]
             /\ ieps' = [ieps EXCEPT ![self] = Head(stack[self]).ieps]
             /\ stack' = [stack EXCEPT ![self] = Tail(stack[self])]
             /\ UNCHANGED << nstate, exq, neps, tick, psched, qtick, qsched, 
                             qendprev, qstart, sidx, stopFut, startFut, cstate, 
                             cexq, ctick, prevrecv, midx, qnext, qtsin, qzipd, 
                             qzipm, qmsgs, qexpsel, qexptm, qtsmax, qgrouped, 
                             cstopFut, fut, nf, qact, qobs, fobs, mustReset, 
                             initialStep, hi, raised, recSteps, recMsgs, execd, 
                             episode, skipCnt, st, k_, fact, newobs, 
                             skippedStep, oi_, tm, sc_, ep, phase, tstart, 
                             tend, d, oi, ii_, psb, k, s, ii_P, ii, cnt_, g, 
                             cnt_P, ts, cnt_E, N, cnt, sc, tseq, tts, teps, 
                             recv, ni_, cf, ni, ci, fo, rf, task, ctask >>

MsgInput(self) == mi0(self) \/ mi9(self)

us0(self) == /\ pc[self] = "us0"
             /\ IF ni_[self] <= Len(Cfg.order)
                   THEN /\ IF nstate[Cfg.order[ni_[self]]] = "RUNNING"
                              THEN /\ pc' = [pc EXCEPT ![self] = "us1"]
                              ELSE /\ pc' = [pc EXCEPT ![self] = "us2"]
                        /\ UNCHANGED << mustReset, cf >>
                   ELSE /\ mustReset' = TRUE
                        /\ IF qact # <<>>
                              THEN /\ cf' = [cf EXCEPT ![self] = Last(qact)]
                                   /\ pc' = [pc EXCEPT ![self] = "us4"]
                              ELSE /\ pc' = [pc EXCEPT ![self] = "us5"]
                                   /\ cf' = cf
             /\ UNCHANGED << nstate, exq, neps, tick, psched, qtick, qsched, 
                             qendprev, qstart, sidx, stopFut, startFut, cstate, 
                             cexq, ctick, prevrecv, midx, qnext, qtsin, qzipd, 
                             qzipm, qmsgs, qexpsel, qexptm, qtsmax, qgrouped, 
                             cstopFut, fut, nf, qact, qobs, fobs, initialStep, 
                             hi, raised, recSteps, recMsgs, execd, episode, 
                             skipCnt, stack, st, k_, fact, newobs, skippedStep, 
                             oi_, tm, sc_, ep, phase, tstart, tend, d, oi, ii_, 
                             psb, k, s, ii_P, ii, cnt_, g, cnt_P, ts, cnt_E, N, 
                             cnt, sc, tseq, tts, teps, recv, iseq, its, ieps, 
                             ni_, ni, ci, fo, rf, task, ctask >>

us3(self) == /\ pc[self] = "us3"
             /\ ni_' = [ni_ EXCEPT ![self] = ni_[self] + 1]
             /\ pc' = [pc EXCEPT ![self] = "us0"]
             /\ UNCHANGED << nstate, exq, neps, tick, psched, qtick, qsched, 
                             qendprev, qstart, sidx, stopFut, startFut, cstate, 
                             cexq, ctick, prevrecv, midx, qnext, qtsin, qzipd, 
                             qzipm, qmsgs, qexpsel, qexptm, qtsmax, qgrouped, 
                             cstopFut, fut, nf, qact, qobs, fobs, mustReset, 
                             initialStep, hi, raised, recSteps, recMsgs, execd, 
                             episode, skipCnt, stack, st, k_, fact, newobs, 
                             skippedStep, oi_, tm, sc_, ep, phase, tstart, 
                             tend, d, oi, ii_, psb, k, s, ii_P, ii, cnt_, g, 
                             cnt_P, ts, cnt_E, N, cnt, sc, tseq, tts, teps, 
                             recv, iseq, its, ieps, cf, ni, ci, fo, rf, task, 
                             ctask >>

us1(self) == /\ pc[self] = "us1"
             /\ nstate' = [nstate EXCEPT ![Cfg.order[ni_[self]]] = "STOPPING"]
             /\ exq' = [exq EXCEPT ![Cfg.order[ni_[self]]] = Append(exq[Cfg.order[ni_[self]]], Task("stopping", 0, 0, 0))]
             /\ stopFut' = [stopFut EXCEPT ![Cfg.order[ni_[self]]] = "pending"]
             /\ pc' = [pc EXCEPT ![self] = "us3"]
             /\ UNCHANGED << neps, tick, psched, qtick, qsched, qendprev, 
                             qstart, sidx, startFut, cstate, cexq, ctick, 
                             prevrecv, midx, qnext, qtsin, qzipd, qzipm, qmsgs, 
                             qexpsel, qexptm, qtsmax, qgrouped, cstopFut, fut, 
                             nf, qact, qobs, fobs, mustReset, initialStep, hi, 
                             raised, recSteps, recMsgs, execd, episode, 
                             skipCnt, stack, st, k_, fact, newobs, skippedStep, 
                             oi_, tm, sc_, ep, phase, tstart, tend, d, oi, ii_, 
                             psb, k, s, ii_P, ii, cnt_, g, cnt_P, ts, cnt_E, N, 
                             cnt, sc, tseq, tts, teps, recv, iseq, its, ieps, 
                             ni_, cf, ni, ci, fo, rf, task, ctask >>

us2(self) == /\ pc[self] = "us2"
             /\ stopFut' = [stopFut EXCEPT ![Cfg.order[ni_[self]]] = "done"]
             /\ pc' = [pc EXCEPT ![self] = "us3"]
             /\ UNCHANGED << nstate, exq, neps, tick, psched, qtick, qsched, 
                             qendprev, qstart, sidx, startFut, cstate, cexq, 
                             ctick, prevrecv, midx, qnext, qtsin, qzipd, qzipm, 
                             qmsgs, qexpsel, qexptm, qtsmax, qgrouped, 
                             cstopFut, fut, nf, qact, qobs, fobs, mustReset, 
                             initialStep, hi, raised, recSteps, recMsgs, execd, 
                             episode, skipCnt, stack, st, k_, fact, newobs, 
                             skippedStep, oi_, tm, sc_, ep, phase, tstart, 
                             tend, d, oi, ii_, psb, k, s, ii_P, ii, cnt_, g, 
                             cnt_P, ts, cnt_E, N, cnt, sc, tseq, tts, teps, 
                             recv, iseq, its, ieps, ni_, cf, ni, ci, fo, rf, 
                             task, ctask >>

us4(self) == /\ pc[self] = "us4"
             /\ IF fut[cf[self]] = "pending"
                   THEN /\ fut' = [fut EXCEPT ![cf[self]] = "cancelled"]
                   ELSE /\ TRUE
                        /\ fut' = fut
             /\ pc' = [pc EXCEPT ![self] = "us5"]
             /\ UNCHANGED << nstate, exq, neps, tick, psched, qtick, qsched, 
                             qendprev, qstart, sidx, stopFut, startFut, cstate, 
                             cexq, ctick, prevrecv, midx, qnext, qtsin, qzipd, 
                             qzipm, qmsgs, qexpsel, qexptm, qtsmax, qgrouped, 
                             cstopFut, nf, qact, qobs, fobs, mustReset, 
                             initialStep, hi, raised, recSteps, recMsgs, execd, 
                             episode, skipCnt, stack, st, k_, fact, newobs, 
                             skippedStep, oi_, tm, sc_, ep, phase, tstart, 
                             tend, d, oi, ii_, psb, k, s, ii_P, ii, cnt_, g, 
                             cnt_P, ts, cnt_E, N, cnt, sc, tseq, tts, teps, 
                             recv, iseq, its, ieps, ni_, cf, ni, ci, fo, rf, 
                             task, ctask >>

us5(self) == /\ pc[self] = "us5"
             /\ ni_' = [ni_ EXCEPT ![self] = 1]
             /\ pc' = [pc EXCEPT ![self] = "us6"]
             /\ UNCHANGED << nstate, exq, neps, tick, psched, qtick, qsched, 
                             qendprev, qstart, sidx, stopFut, startFut, cstate, 
                             cexq, ctick, prevrecv, midx, qnext, qtsin, qzipd, 
                             qzipm, qmsgs, qexpsel, qexptm, qtsmax, qgrouped, 
                             cstopFut, fut, nf, qact, qobs, fobs, mustReset, 
                             initialStep, hi, raised, recSteps, recMsgs, execd, 
                             episode, skipCnt, stack, st, k_, fact, newobs, 
                             skippedStep, oi_, tm, sc_, ep, phase, tstart, 
                             tend, d, oi, ii_, psb, k, s, ii_P, ii, cnt_, g, 
                             cnt_P, ts, cnt_E, N, cnt, sc, tseq, tts, teps, 
                             recv, iseq, its, ieps, cf, ni, ci, fo, rf, task, 
                             ctask >>

us6(self) == /\ pc[self] = "us6"
             /\ IF ni_[self] <= Len(Cfg.order)
                   THEN /\ pc' = [pc EXCEPT ![self] = "us7"]
                        /\ UNCHANGED initialStep
                   ELSE /\ initialStep' = TRUE
                        /\ pc' = [pc EXCEPT ![self] = "us9"]
             /\ UNCHANGED << nstate, exq, neps, tick, psched, qtick, qsched, 
                             qendprev, qstart, sidx, stopFut, startFut, cstate, 
                             cexq, ctick, prevrecv, midx, qnext, qtsin, qzipd, 
                             qzipm, qmsgs, qexpsel, qexptm, qtsmax, qgrouped, 
                             cstopFut, fut, nf, qact, qobs, fobs, mustReset, 
                             hi, raised, recSteps, recMsgs, execd, episode, 
                             skipCnt, stack, st, k_, fact, newobs, skippedStep, 
                             oi_, tm, sc_, ep, phase, tstart, tend, d, oi, ii_, 
                             psb, k, s, ii_P, ii, cnt_, g, cnt_P, ts, cnt_E, N, 
                             cnt, sc, tseq, tts, teps, recv, iseq, its, ieps, 
                             ni_, cf, ni, ci, fo, rf, task, ctask >>

us7(self) == /\ pc[self] = "us7"
             /\ stopFut[Cfg.order[ni_[self]]] = "done"
             /\ ni_' = [ni_ EXCEPT ![self] = ni_[self] + 1]
             /\ pc' = [pc EXCEPT ![self] = "us6"]
             /\ UNCHANGED << nstate, exq, neps, tick, psched, qtick, qsched, 
                             qendprev, qstart, sidx, stopFut, startFut, cstate, 
                             cexq, ctick, prevrecv, midx, qnext, qtsin, qzipd, 
                             qzipm, qmsgs, qexpsel, qexptm, qtsmax, qgrouped, 
                             cstopFut, fut, nf, qact, qobs, fobs, mustReset, 
                             initialStep, hi, raised, recSteps, recMsgs, execd, 
                             episode, skipCnt, stack, st, k_, fact, newobs, 
                             skippedStep, oi_, tm, sc_, ep, phase, tstart, 
                             tend, d, oi, ii_, psb, k, s, ii_P, ii, cnt_, g, 
                             cnt_P, ts, cnt_E, N, cnt, sc, tseq, tts, teps, 
                             recv, iseq, its, ieps, cf, ni, ci, fo, rf, task, 
                             ctask >>

us9(self) == /\ pc[self] = "us9"
             /\ pc' = [pc EXCEPT ![self] = Head(stack[self]).pc]
             /\ ni_' = [ni_ EXCEPT ![self] = Head(stack[self]).ni_]
             /\ cf' = [cf EXCEPT ![self] = Head(stack[self]).cf]
             /\ stack' = [stack EXCEPT ![self] = Tail(stack[self])]
             /\ UNCHANGED << nstate, exq, neps, tick, psched, qtick, qsched, 
                             qendprev, qstart, sidx, stopFut, startFut, cstate, 
                             cexq, ctick, prevrecv, midx, qnext, qtsin, qzipd, 
                             qzipm, qmsgs, qexpsel, qexptm, qtsmax, qgrouped, 
                             cstopFut, fut, nf, qact, qobs, fobs, mustReset, 
                             initialStep, hi, raised, recSteps, recMsgs, execd, 
                             episode, skipCnt, st, k_, fact, newobs, 
                             skippedStep, oi_, tm, sc_, ep, phase, tstart, 
                             tend, d, oi, ii_, psb, k, s, ii_P, ii, cnt_, g, 
                             cnt_P, ts, cnt_E, N, cnt, sc, tseq, tts, teps, 
                             recv, iseq, its, ieps, ni, ci, fo, rf, task, 
                             ctask >>

Stop(self) == us0(self) \/ us3(self) \/ us1(self) \/ us2(self) \/ us4(self)
                 \/ us5(self) \/ us6(self) \/ us7(self) \/ us9(self)

ua0(self) == /\ pc[self] = "ua0"
             /\ stack' = [stack EXCEPT ![self] = << [ procedure |->  "Stop",
                                                      pc        |->  "ua1",
                                                      ni_       |->  ni_[self],
                                                      cf        |->  cf[self] ] >>
                                                  \o stack[self]]
             /\ ni_' = [ni_ EXCEPT ![self] = 1]
             /\ cf' = [cf EXCEPT ![self] = 0]
             /\ pc' = [pc EXCEPT ![self] = "us0"]
             /\ UNCHANGED << nstate, exq, neps, tick, psched, qtick, qsched, 
                             qendprev, qstart, sidx, stopFut, startFut, cstate, 
                             cexq, ctick, prevrecv, midx, qnext, qtsin, qzipd, 
                             qzipm, qmsgs, qexpsel, qexptm, qtsmax, qgrouped, 
                             cstopFut, fut, nf, qact, qobs, fobs, mustReset, 
                             initialStep, hi, raised, recSteps, recMsgs, execd, 
                             episode, skipCnt, st, k_, fact, newobs, 
                             skippedStep, oi_, tm, sc_, ep, phase, tstart, 
                             tend, d, oi, ii_, psb, k, s, ii_P, ii, cnt_, g, 
                             cnt_P, ts, cnt_E, N, cnt, sc, tseq, tts, teps, 
                             recv, iseq, its, ieps, ni, ci, fo, rf, task, 
                             ctask >>

ua1(self) == /\ pc[self] = "ua1"
             /\ episode' = episode + 1
             /\ mustReset' = FALSE
             /\ qact' = <<>>
             /\ nf' = nf + 1
             /\ fut' = [fut EXCEPT ![nf'] = "pending"]
             /\ qobs' = <<nf'>>
             /\ fobs' = nf'
             /\ neps' = [n \in Nodes |-> neps[n] + 1]
             /\ tick' = [n \in Nodes |-> 0]
             /\ psched' = [n \in Nodes |-> 0]
             /\ qtick' = [n \in Nodes |-> 0]
             /\ qsched' = [n \in Nodes |-> <<>>]
             /\ qendprev' = [n \in Nodes |-> <<>>]
             /\ qstart' = [n \in Nodes |-> <<>>]
             /\ sidx' = [n \in Nodes |-> 0]
             /\ nstate' = [n \in Nodes |-> "READY"]
             /\ ctick' = [x \in Conns |-> 0]
             /\ prevrecv' = [x \in Conns |-> 0]
             /\ midx' = [x \in Conns |-> 0]
             /\ qnext' = [x \in Conns |-> <<>>]
             /\ qtsin' = [x \in Conns |-> <<>>]
             /\ qzipd' = [x \in Conns |-> <<>>]
             /\ qzipm' = [x \in Conns |-> <<>>]
             /\ qmsgs' = [x \in Conns |-> <<>>]
             /\ qexpsel' = [x \in Conns |-> <<>>]
             /\ qexptm' = [x \in Conns |-> <<>>]
             /\ qtsmax' = [x \in Conns |-> <<>>]
             /\ qgrouped' = [x \in Conns |-> <<>>]
             /\ cstate' = [x \in Conns |-> "READY"]
             /\ recSteps' = [n \in Nodes |-> <<>>]
             /\ recMsgs' = [x \in Conns |-> <<>>]
             /\ execd' = [n \in Nodes |-> <<>>]
             /\ skipCnt' = 0
             /\ ni' = [ni EXCEPT ![self] = 1]
             /\ pc' = [pc EXCEPT ![self] = "ua2h"]
             /\ UNCHANGED << exq, stopFut, startFut, cexq, cstopFut, 
                             initialStep, hi, raised, stack, st, k_, fact, 
                             newobs, skippedStep, oi_, tm, sc_, ep, phase, 
                             tstart, tend, d, oi, ii_, psb, k, s, ii_P, ii, 
                             cnt_, g, cnt_P, ts, cnt_E, N, cnt, sc, tseq, tts, 
                             teps, recv, iseq, its, ieps, ni_, cf, ci, fo, rf, 
                             task, ctask >>

ua2h(self) == /\ pc[self] = "ua2h"
              /\ IF ni[self] <= Len(Cfg.order)
                    THEN /\ pc' = [pc EXCEPT ![self] = "ua2"]
                    ELSE /\ pc' = [pc EXCEPT ![self] = "ua3"]
              /\ UNCHANGED << nstate, exq, neps, tick, psched, qtick, qsched, 
                              qendprev, qstart, sidx, stopFut, startFut, 
                              cstate, cexq, ctick, prevrecv, midx, qnext, 
                              qtsin, qzipd, qzipm, qmsgs, qexpsel, qexptm, 
                              qtsmax, qgrouped, cstopFut, fut, nf, qact, qobs, 
                              fobs, mustReset, initialStep, hi, raised, 
                              recSteps, recMsgs, execd, episode, skipCnt, 
                              stack, st, k_, fact, newobs, skippedStep, oi_, 
                              tm, sc_, ep, phase, tstart, tend, d, oi, ii_, 
                              psb, k, s, ii_P, ii, cnt_, g, cnt_P, ts, cnt_E, 
                              N, cnt, sc, tseq, tts, teps, recv, iseq, its, 
                              ieps, ni_, cf, ni, ci, fo, rf, task, ctask >>

ua2(self) == /\ pc[self] = "ua2"
             /\ nstate' = [nstate EXCEPT ![Cfg.order[ni[self]]] = "STARTING"]
             /\ exq' = [exq EXCEPT ![Cfg.order[ni[self]]] = Append(exq[Cfg.order[ni[self]]], Task("starting", 0, 0, 0))]
             /\ startFut' = [startFut EXCEPT ![Cfg.order[ni[self]]] = "pending"]
             /\ ni' = [ni EXCEPT ![self] = ni[self] + 1]
             /\ pc' = [pc EXCEPT ![self] = "ua2h"]
             /\ UNCHANGED << neps, tick, psched, qtick, qsched, qendprev, 
                             qstart, sidx, stopFut, cstate, cexq, ctick, 
                             prevrecv, midx, qnext, qtsin, qzipd, qzipm, qmsgs, 
                             qexpsel, qexptm, qtsmax, qgrouped, cstopFut, fut, 
                             nf, qact, qobs, fobs, mustReset, initialStep, hi, 
                             raised, recSteps, recMsgs, execd, episode, 
                             skipCnt, stack, st, k_, fact, newobs, skippedStep, 
                             oi_, tm, sc_, ep, phase, tstart, tend, d, oi, ii_, 
                             psb, k, s, ii_P, ii, cnt_, g, cnt_P, ts, cnt_E, N, 
                             cnt, sc, tseq, tts, teps, recv, iseq, its, ieps, 
                             ni_, cf, ci, fo, rf, task, ctask >>

ua3(self) == /\ pc[self] = "ua3"
             /\ ni' = [ni EXCEPT ![self] = 1]
             /\ pc' = [pc EXCEPT ![self] = "ua4"]
             /\ UNCHANGED << nstate, exq, neps, tick, psched, qtick, qsched, 
                             qendprev, qstart, sidx, stopFut, startFut, cstate, 
                             cexq, ctick, prevrecv, midx, qnext, qtsin, qzipd, 
                             qzipm, qmsgs, qexpsel, qexptm, qtsmax, qgrouped, 
                             cstopFut, fut, nf, qact, qobs, fobs, mustReset, 
                             initialStep, hi, raised, recSteps, recMsgs, execd, 
                             episode, skipCnt, stack, st, k_, fact, newobs, 
                             skippedStep, oi_, tm, sc_, ep, phase, tstart, 
                             tend, d, oi, ii_, psb, k, s, ii_P, ii, cnt_, g, 
                             cnt_P, ts, cnt_E, N, cnt, sc, tseq, tts, teps, 
                             recv, iseq, its, ieps, ni_, cf, ci, fo, rf, task, 
                             ctask >>

ua4(self) == /\ pc[self] = "ua4"
             /\ IF ni[self] <= Len(Cfg.order)
                   THEN /\ pc' = [pc EXCEPT ![self] = "ua5"]
                   ELSE /\ pc' = [pc EXCEPT ![self] = "ua6"]
             /\ UNCHANGED << nstate, exq, neps, tick, psched, qtick, qsched, 
                             qendprev, qstart, sidx, stopFut, startFut, cstate, 
                             cexq, ctick, prevrecv, midx, qnext, qtsin, qzipd, 
                             qzipm, qmsgs, qexpsel, qexptm, qtsmax, qgrouped, 
                             cstopFut, fut, nf, qact, qobs, fobs, mustReset, 
                             initialStep, hi, raised, recSteps, recMsgs, execd, 
                             episode, skipCnt, stack, st, k_, fact, newobs, 
                             skippedStep, oi_, tm, sc_, ep, phase, tstart, 
                             tend, d, oi, ii_, psb, k, s, ii_P, ii, cnt_, g, 
                             cnt_P, ts, cnt_E, N, cnt, sc, tseq, tts, teps, 
                             recv, iseq, its, ieps, ni_, cf, ni, ci, fo, rf, 
                             task, ctask >>

ua5(self) == /\ pc[self] = "ua5"
             /\ startFut[Cfg.order[ni[self]]] = "done"
             /\ ni' = [ni EXCEPT ![self] = ni[self] + 1]
             /\ pc' = [pc EXCEPT ![self] = "ua4"]
             /\ UNCHANGED << nstate, exq, neps, tick, psched, qtick, qsched, 
                             qendprev, qstart, sidx, stopFut, startFut, cstate, 
                             cexq, ctick, prevrecv, midx, qnext, qtsin, qzipd, 
                             qzipm, qmsgs, qexpsel, qexptm, qtsmax, qgrouped, 
                             cstopFut, fut, nf, qact, qobs, fobs, mustReset, 
                             initialStep, hi, raised, recSteps, recMsgs, execd, 
                             episode, skipCnt, stack, st, k_, fact, newobs, 
                             skippedStep, oi_, tm, sc_, ep, phase, tstart, 
                             tend, d, oi, ii_, psb, k, s, ii_P, ii, cnt_, g, 
                             cnt_P, ts, cnt_E, N, cnt, sc, tseq, tts, teps, 
                             recv, iseq, its, ieps, ni_, cf, ci, fo, rf, task, 
                             ctask >>

ua6(self) == /\ pc[self] = "ua6"
             /\ ni' = [ni EXCEPT ![self] = 1]
             /\ pc' = [pc EXCEPT ![self] = "ua7"]
             /\ UNCHANGED << nstate, exq, neps, tick, psched, qtick, qsched, 
                             qendprev, qstart, sidx, stopFut, startFut, cstate, 
                             cexq, ctick, prevrecv, midx, qnext, qtsin, qzipd, 
                             qzipm, qmsgs, qexpsel, qexptm, qtsmax, qgrouped, 
                             cstopFut, fut, nf, qact, qobs, fobs, mustReset, 
                             initialStep, hi, raised, recSteps, recMsgs, execd, 
                             episode, skipCnt, stack, st, k_, fact, newobs, 
                             skippedStep, oi_, tm, sc_, ep, phase, tstart, 
                             tend, d, oi, ii_, psb, k, s, ii_P, ii, cnt_, g, 
                             cnt_P, ts, cnt_E, N, cnt, sc, tseq, tts, teps, 
                             recv, iseq, its, ieps, ni_, cf, ci, fo, rf, task, 
                             ctask >>

ua7(self) == /\ pc[self] = "ua7"
             /\ IF ni[self] <= Len(Cfg.order)
                   THEN /\ nstate' = [nstate EXCEPT ![Cfg.order[ni[self]]] = "RUNNING"]
                        /\ pc' = [pc EXCEPT ![self] = "ua8"]
                   ELSE /\ pc' = [pc EXCEPT ![self] = "ua10"]
                        /\ UNCHANGED nstate
             /\ UNCHANGED << exq, neps, tick, psched, qtick, qsched, qendprev, 
                             qstart, sidx, stopFut, startFut, cstate, cexq, 
                             ctick, prevrecv, midx, qnext, qtsin, qzipd, qzipm, 
                             qmsgs, qexpsel, qexptm, qtsmax, qgrouped, 
                             cstopFut, fut, nf, qact, qobs, fobs, mustReset, 
                             initialStep, hi, raised, recSteps, recMsgs, execd, 
                             episode, skipCnt, stack, st, k_, fact, newobs, 
                             skippedStep, oi_, tm, sc_, ep, phase, tstart, 
                             tend, d, oi, ii_, psb, k, s, ii_P, ii, cnt_, g, 
                             cnt_P, ts, cnt_E, N, cnt, sc, tseq, tts, teps, 
                             recv, iseq, its, ieps, ni_, cf, ni, ci, fo, rf, 
                             task, ctask >>

ua8(self) == /\ pc[self] = "ua8"
             /\ cstate' = [x \in Conns |-> IF x \in SeqToSet(NodeC(Cfg.order[ni[self]]).ins) THEN "RUNNING" ELSE cstate[x]]
             /\ qendprev' = [qendprev EXCEPT ![Cfg.order[ni[self]]] = <<0>>]
             /\ qtick' = [qtick EXCEPT ![Cfg.order[ni[self]]] = NumTokens]
             /\ pc' = [pc EXCEPT ![self] = "ua9"]
             /\ UNCHANGED << nstate, exq, neps, tick, psched, qsched, qstart, 
                             sidx, stopFut, startFut, cexq, ctick, prevrecv, 
                             midx, qnext, qtsin, qzipd, qzipm, qmsgs, qexpsel, 
                             qexptm, qtsmax, qgrouped, cstopFut, fut, nf, qact, 
                             qobs, fobs, mustReset, initialStep, hi, raised, 
                             recSteps, recMsgs, execd, episode, skipCnt, stack, 
                             st, k_, fact, newobs, skippedStep, oi_, tm, sc_, 
                             ep, phase, tstart, tend, d, oi, ii_, psb, k, s, 
                             ii_P, ii, cnt_, g, cnt_P, ts, cnt_E, N, cnt, sc, 
                             tseq, tts, teps, recv, iseq, its, ieps, ni_, cf, 
                             ni, ci, fo, rf, task, ctask >>

ua9(self) == /\ pc[self] = "ua9"
             /\ IF NodeAllowed(nstate[(Cfg.order[ni[self]])]) \/ FALSE
                   THEN /\ exq' = [exq EXCEPT ![(Cfg.order[ni[self]])] = Append(exq[(Cfg.order[ni[self]])], (Task("push_sched", 0, 0, 0)))]
                   ELSE /\ TRUE
                        /\ exq' = exq
             /\ ni' = [ni EXCEPT ![self] = ni[self] + 1]
             /\ pc' = [pc EXCEPT ![self] = "ua7"]
             /\ UNCHANGED << nstate, neps, tick, psched, qtick, qsched, 
                             qendprev, qstart, sidx, stopFut, startFut, cstate, 
                             cexq, ctick, prevrecv, midx, qnext, qtsin, qzipd, 
                             qzipm, qmsgs, qexpsel, qexptm, qtsmax, qgrouped, 
                             cstopFut, fut, nf, qact, qobs, fobs, mustReset, 
                             initialStep, hi, raised, recSteps, recMsgs, execd, 
                             episode, skipCnt, stack, st, k_, fact, newobs, 
                             skippedStep, oi_, tm, sc_, ep, phase, tstart, 
                             tend, d, oi, ii_, psb, k, s, ii_P, ii, cnt_, g, 
                             cnt_P, ts, cnt_E, N, cnt, sc, tseq, tts, teps, 
                             recv, iseq, its, ieps, ni_, cf, ci, fo, rf, task, 
                             ctask >>

ua10(self) == /\ pc[self] = "ua10"
              /\ pc' = [pc EXCEPT ![self] = Head(stack[self]).pc]
              /\ ni' = [ni EXCEPT ![self] = Head(stack[self]).ni]
              /\ ci' = [ci EXCEPT ![self] = Head(stack[self]).ci]
              /\ stack' = [stack EXCEPT ![self] = Tail(stack[self])]
              /\ UNCHANGED << nstate, exq, neps, tick, psched, qtick, qsched, 
                              qendprev, qstart, sidx, stopFut, startFut, 
                              cstate, cexq, ctick, prevrecv, midx, qnext, 
                              qtsin, qzipd, qzipm, qmsgs, qexpsel, qexptm, 
                              qtsmax, qgrouped, cstopFut, fut, nf, qact, qobs, 
                              fobs, mustReset, initialStep, hi, raised, 
                              recSteps, recMsgs, execd, episode, skipCnt, st, 
                              k_, fact, newobs, skippedStep, oi_, tm, sc_, ep, 
                              phase, tstart, tend, d, oi, ii_, psb, k, s, ii_P, 
                              ii, cnt_, g, cnt_P, ts, cnt_E, N, cnt, sc, tseq, 
                              tts, teps, recv, iseq, its, ieps, ni_, cf, fo, 
                              rf, task, ctask >>

Start(self) == ua0(self) \/ ua1(self) \/ ua2h(self) \/ ua2(self)
                  \/ ua3(self) \/ ua4(self) \/ ua5(self) \/ ua6(self)
                  \/ ua7(self) \/ ua8(self) \/ ua9(self) \/ ua10(self)

ur0(self) == /\ pc[self] = "ur0"
             /\ fo' = [fo EXCEPT ![self] = Head(qobs)]
             /\ qobs' = Tail(qobs)
             /\ pc' = [pc EXCEPT ![self] = "ur1"]
             /\ UNCHANGED << nstate, exq, neps, tick, psched, qtick, qsched, 
                             qendprev, qstart, sidx, stopFut, startFut, cstate, 
                             cexq, ctick, prevrecv, midx, qnext, qtsin, qzipd, 
                             qzipm, qmsgs, qexpsel, qexptm, qtsmax, qgrouped, 
                             cstopFut, fut, nf, qact, fobs, mustReset, 
                             initialStep, hi, raised, recSteps, recMsgs, execd, 
                             episode, skipCnt, stack, st, k_, fact, newobs, 
                             skippedStep, oi_, tm, sc_, ep, phase, tstart, 
                             tend, d, oi, ii_, psb, k, s, ii_P, ii, cnt_, g, 
                             cnt_P, ts, cnt_E, N, cnt, sc, tseq, tts, teps, 
                             recv, iseq, its, ieps, ni_, cf, ni, ci, rf, task, 
                             ctask >>

ur1(self) == /\ pc[self] = "ur1"
             /\ fut[fo[self]] = "set"
             /\ initialStep' = FALSE
             /\ pc' = [pc EXCEPT ![self] = "ur9"]
             /\ UNCHANGED << nstate, exq, neps, tick, psched, qtick, qsched, 
                             qendprev, qstart, sidx, stopFut, startFut, cstate, 
                             cexq, ctick, prevrecv, midx, qnext, qtsin, qzipd, 
                             qzipm, qmsgs, qexpsel, qexptm, qtsmax, qgrouped, 
                             cstopFut, fut, nf, qact, qobs, fobs, mustReset, 
                             hi, raised, recSteps, recMsgs, execd, episode, 
                             skipCnt, stack, st, k_, fact, newobs, skippedStep, 
                             oi_, tm, sc_, ep, phase, tstart, tend, d, oi, ii_, 
                             psb, k, s, ii_P, ii, cnt_, g, cnt_P, ts, cnt_E, N, 
                             cnt, sc, tseq, tts, teps, recv, iseq, its, ieps, 
                             ni_, cf, ni, ci, fo, rf, task, ctask >>

ur9(self) == /\ pc[self] = "ur9"
             /\ pc' = [pc EXCEPT ![self] = Head(stack[self]).pc]
             /\ fo' = [fo EXCEPT ![self] = Head(stack[self]).fo]
             /\ stack' = [stack EXCEPT ![self] = Tail(stack[self])]
             /\ UNCHANGED << nstate, exq, neps, tick, psched, qtick, qsched, 
                             qendprev, qstart, sidx, stopFut, startFut, cstate, 
                             cexq, ctick, prevrecv, midx, qnext, qtsin, qzipd, 
                             qzipm, qmsgs, qexpsel, qexptm, qtsmax, qgrouped, 
                             cstopFut, fut, nf, qact, qobs, fobs, mustReset, 
                             initialStep, hi, raised, recSteps, recMsgs, execd, 
                             episode, skipCnt, st, k_, fact, newobs, 
                             skippedStep, oi_, tm, sc_, ep, phase, tstart, 
                             tend, d, oi, ii_, psb, k, s, ii_P, ii, cnt_, g, 
                             cnt_P, ts, cnt_E, N, cnt, sc, tseq, tts, teps, 
                             recv, iseq, its, ieps, ni_, cf, ni, ci, rf, task, 
                             ctask >>

RunUntilSup(self) == ur0(self) \/ ur1(self) \/ ur9(self)

ux0(self) == /\ pc[self] = "ux0"
             /\ IF ~initialStep
                   THEN /\ IF qact = <<>>
                              THEN /\ raised' = "IndexError(run_supervisor)"
                                   /\ pc' = [pc EXCEPT ![self] = "ux9"]
                                   /\ rf' = rf
                              ELSE /\ rf' = [rf EXCEPT ![self] = Last(qact)]
                                   /\ pc' = [pc EXCEPT ![self] = "ux1"]
                                   /\ UNCHANGED raised
                   ELSE /\ pc' = [pc EXCEPT ![self] = "ux9"]
                        /\ UNCHANGED << raised, rf >>
             /\ UNCHANGED << nstate, exq, neps, tick, psched, qtick, qsched, 
                             qendprev, qstart, sidx, stopFut, startFut, cstate, 
                             cexq, ctick, prevrecv, midx, qnext, qtsin, qzipd, 
                             qzipm, qmsgs, qexpsel, qexptm, qtsmax, qgrouped, 
                             cstopFut, fut, nf, qact, qobs, fobs, mustReset, 
                             initialStep, hi, recSteps, recMsgs, execd, 
                             episode, skipCnt, stack, st, k_, fact, newobs, 
                             skippedStep, oi_, tm, sc_, ep, phase, tstart, 
                             tend, d, oi, ii_, psb, k, s, ii_P, ii, cnt_, g, 
                             cnt_P, ts, cnt_E, N, cnt, sc, tseq, tts, teps, 
                             recv, iseq, its, ieps, ni_, cf, ni, ci, fo, task, 
                             ctask >>

ux1(self) == /\ pc[self] = "ux1"
             /\ IF fut[rf[self]] = "pending"
                   THEN /\ fut' = [fut EXCEPT ![rf[self]] = "set"]
                        /\ UNCHANGED raised
                   ELSE /\ raised' = "InvalidState(run_supervisor)"
                        /\ fut' = fut
             /\ pc' = [pc EXCEPT ![self] = "ux9"]
             /\ UNCHANGED << nstate, exq, neps, tick, psched, qtick, qsched, 
                             qendprev, qstart, sidx, stopFut, startFut, cstate, 
                             cexq, ctick, prevrecv, midx, qnext, qtsin, qzipd, 
                             qzipm, qmsgs, qexpsel, qexptm, qtsmax, qgrouped, 
                             cstopFut, nf, qact, qobs, fobs, mustReset, 
                             initialStep, hi, recSteps, recMsgs, execd, 
                             episode, skipCnt, stack, st, k_, fact, newobs, 
                             skippedStep, oi_, tm, sc_, ep, phase, tstart, 
                             tend, d, oi, ii_, psb, k, s, ii_P, ii, cnt_, g, 
                             cnt_P, ts, cnt_E, N, cnt, sc, tseq, tts, teps, 
                             recv, iseq, its, ieps, ni_, cf, ni, ci, fo, rf, 
                             task, ctask >>

ux9(self) == /\ pc[self] = "ux9"
             /\ pc' = [pc EXCEPT ![self] = Head(stack[self]).pc]
             /\ rf' = [rf EXCEPT ![self] = Head(stack[self]).rf]
             /\ stack' = [stack EXCEPT ![self] = Tail(stack[self])]
             /\ UNCHANGED << nstate, exq, neps, tick, psched, qtick, qsched, 
                             qendprev, qstart, sidx, stopFut, startFut, cstate, 
                             cexq, ctick, prevrecv, midx, qnext, qtsin, qzipd, 
                             qzipm, qmsgs, qexpsel, qexptm, qtsmax, qgrouped, 
                             cstopFut, fut, nf, qact, qobs, fobs, mustReset, 
                             initialStep, hi, raised, recSteps, recMsgs, execd, 
                             episode, skipCnt, st, k_, fact, newobs, 
                             skippedStep, oi_, tm, sc_, ep, phase, tstart, 
                             tend, d, oi, ii_, psb, k, s, ii_P, ii, cnt_, g, 
                             cnt_P, ts, cnt_E, N, cnt, sc, tseq, tts, teps, 
                             recv, iseq, its, ieps, ni_, cf, ni, ci, fo, task, 
                             ctask >>

RunSup(self) == ux0(self) \/ ux1(self) \/ ux9(self)

u0 == /\ pc["user"] = "u0"
      /\ IF hi <= Len(Hist) /\ raised = ""
            THEN /\ IF Hist[hi] = "run"
                       THEN /\ IF initialStep
                                  THEN /\ stack' = [stack EXCEPT !["user"] = << [ procedure |->  "Start",
                                                                                  pc        |->  "u1",
                                                                                  ni        |->  ni["user"],
                                                                                  ci        |->  ci["user"] ] >>
                                                                              \o stack["user"]]
                                       /\ ni' = [ni EXCEPT !["user"] = 1]
                                       /\ ci' = [ci EXCEPT !["user"] = 1]
                                       /\ pc' = [pc EXCEPT !["user"] = "ua0"]
                                  ELSE /\ pc' = [pc EXCEPT !["user"] = "u1"]
                                       /\ UNCHANGED << stack, ni, ci >>
                            /\ UNCHANGED << ni_, cf, rf >>
                       ELSE /\ IF Hist[hi] = "reset"
                                  THEN /\ stack' = [stack EXCEPT !["user"] = << [ procedure |->  "Start",
                                                                                  pc        |->  "u3",
                                                                                  ni        |->  ni["user"],
                                                                                  ci        |->  ci["user"] ] >>
                                                                              \o stack["user"]]
                                       /\ ni' = [ni EXCEPT !["user"] = 1]
                                       /\ ci' = [ci EXCEPT !["user"] = 1]
                                       /\ pc' = [pc EXCEPT !["user"] = "ua0"]
                                       /\ UNCHANGED << ni_, cf, rf >>
                                  ELSE /\ IF Hist[hi] = "step"
                                             THEN /\ stack' = [stack EXCEPT !["user"] = << [ procedure |->  "RunSup",
                                                                                             pc        |->  "u4",
                                                                                             rf        |->  rf["user"] ] >>
                                                                                         \o stack["user"]]
                                                  /\ rf' = [rf EXCEPT !["user"] = 0]
                                                  /\ pc' = [pc EXCEPT !["user"] = "ux0"]
                                                  /\ UNCHANGED << ni_, cf >>
                                             ELSE /\ stack' = [stack EXCEPT !["user"] = << [ procedure |->  "Stop",
                                                                                             pc        |->  "u5",
                                                                                             ni_       |->  ni_["user"],
                                                                                             cf        |->  cf["user"] ] >>
                                                                                         \o stack["user"]]
                                                  /\ ni_' = [ni_ EXCEPT !["user"] = 1]
                                                  /\ cf' = [cf EXCEPT !["user"] = 0]
                                                  /\ pc' = [pc EXCEPT !["user"] = "us0"]
                                                  /\ rf' = rf
                                       /\ UNCHANGED << ni, ci >>
            ELSE /\ pc' = [pc EXCEPT !["user"] = "u9"]
                 /\ UNCHANGED << stack, ni_, cf, ni, ci, rf >>
      /\ UNCHANGED << nstate, exq, neps, tick, psched, qtick, qsched, qendprev, 
                      qstart, sidx, stopFut, startFut, cstate, cexq, ctick, 
                      prevrecv, midx, qnext, qtsin, qzipd, qzipm, qmsgs, 
                      qexpsel, qexptm, qtsmax, qgrouped, cstopFut, fut, nf, 
                      qact, qobs, fobs, mustReset, initialStep, hi, raised, 
                      recSteps, recMsgs, execd, episode, skipCnt, st, k_, fact, 
                      newobs, skippedStep, oi_, tm, sc_, ep, phase, tstart, 
                      tend, d, oi, ii_, psb, k, s, ii_P, ii, cnt_, g, cnt_P, 
                      ts, cnt_E, N, cnt, sc, tseq, tts, teps, recv, iseq, its, 
                      ieps, fo, task, ctask >>

u5 == /\ pc["user"] = "u5"
      /\ hi' = hi + 1
      /\ pc' = [pc EXCEPT !["user"] = "u0"]
      /\ UNCHANGED << nstate, exq, neps, tick, psched, qtick, qsched, qendprev, 
                      qstart, sidx, stopFut, startFut, cstate, cexq, ctick, 
                      prevrecv, midx, qnext, qtsin, qzipd, qzipm, qmsgs, 
                      qexpsel, qexptm, qtsmax, qgrouped, cstopFut, fut, nf, 
                      qact, qobs, fobs, mustReset, initialStep, raised, 
                      recSteps, recMsgs, execd, episode, skipCnt, stack, st, 
                      k_, fact, newobs, skippedStep, oi_, tm, sc_, ep, phase, 
                      tstart, tend, d, oi, ii_, psb, k, s, ii_P, ii, cnt_, g, 
                      cnt_P, ts, cnt_E, N, cnt, sc, tseq, tts, teps, recv, 
                      iseq, its, ieps, ni_, cf, ni, ci, fo, rf, task, ctask >>

u1 == /\ pc["user"] = "u1"
      /\ stack' = [stack EXCEPT !["user"] = << [ procedure |->  "RunUntilSup",
                                                 pc        |->  "u2",
                                                 fo        |->  fo["user"] ] >>
                                             \o stack["user"]]
      /\ fo' = [fo EXCEPT !["user"] = 0]
      /\ pc' = [pc EXCEPT !["user"] = "ur0"]
      /\ UNCHANGED << nstate, exq, neps, tick, psched, qtick, qsched, qendprev, 
                      qstart, sidx, stopFut, startFut, cstate, cexq, ctick, 
                      prevrecv, midx, qnext, qtsin, qzipd, qzipm, qmsgs, 
                      qexpsel, qexptm, qtsmax, qgrouped, cstopFut, fut, nf, 
                      qact, qobs, fobs, mustReset, initialStep, hi, raised, 
                      recSteps, recMsgs, execd, episode, skipCnt, st, k_, fact, 
                      newobs, skippedStep, oi_, tm, sc_, ep, phase, tstart, 
                      tend, d, oi, ii_, psb, k, s, ii_P, ii, cnt_, g, cnt_P, 
                      ts, cnt_E, N, cnt, sc, tseq, tts, teps, recv, iseq, its, 
                      ieps, ni_, cf, ni, ci, rf, task, ctask >>

u2 == /\ pc["user"] = "u2"
      /\ stack' = [stack EXCEPT !["user"] = << [ procedure |->  "RunSup",
                                                 pc        |->  "u5",
                                                 rf        |->  rf["user"] ] >>
                                             \o stack["user"]]
      /\ rf' = [rf EXCEPT !["user"] = 0]
      /\ pc' = [pc EXCEPT !["user"] = "ux0"]
      /\ UNCHANGED << nstate, exq, neps, tick, psched, qtick, qsched, qendprev, 
                      qstart, sidx, stopFut, startFut, cstate, cexq, ctick, 
                      prevrecv, midx, qnext, qtsin, qzipd, qzipm, qmsgs, 
                      qexpsel, qexptm, qtsmax, qgrouped, cstopFut, fut, nf, 
                      qact, qobs, fobs, mustReset, initialStep, hi, raised, 
                      recSteps, recMsgs, execd, episode, skipCnt, st, k_, fact, 
                      newobs, skippedStep, oi_, tm, sc_, ep, phase, tstart, 
                      tend, d, oi, ii_, psb, k, s, ii_P, ii, cnt_, g, cnt_P, 
                      ts, cnt_E, N, cnt, sc, tseq, tts, teps, recv, iseq, its, 
                      ieps, ni_, cf, ni, ci, fo, task, ctask >>

u3 == /\ pc["user"] = "u3"
      /\ stack' = [stack EXCEPT !["user"] = << [ procedure |->  "RunUntilSup",
                                                 pc        |->  "u5",
                                                 fo        |->  fo["user"] ] >>
                                             \o stack["user"]]
      /\ fo' = [fo EXCEPT !["user"] = 0]
      /\ pc' = [pc EXCEPT !["user"] = "ur0"]
      /\ UNCHANGED << nstate, exq, neps, tick, psched, qtick, qsched, qendprev, 
                      qstart, sidx, stopFut, startFut, cstate, cexq, ctick, 
                      prevrecv, midx, qnext, qtsin, qzipd, qzipm, qmsgs, 
                      qexpsel, qexptm, qtsmax, qgrouped, cstopFut, fut, nf, 
                      qact, qobs, fobs, mustReset, initialStep, hi, raised, 
                      recSteps, recMsgs, execd, episode, skipCnt, st, k_, fact, 
                      newobs, skippedStep, oi_, tm, sc_, ep, phase, tstart, 
                      tend, d, oi, ii_, psb, k, s, ii_P, ii, cnt_, g, cnt_P, 
                      ts, cnt_E, N, cnt, sc, tseq, tts, teps, recv, iseq, its, 
                      ieps, ni_, cf, ni, ci, rf, task, ctask >>

u4 == /\ pc["user"] = "u4"
      /\ stack' = [stack EXCEPT !["user"] = << [ procedure |->  "RunUntilSup",
                                                 pc        |->  "u5",
                                                 fo        |->  fo["user"] ] >>
                                             \o stack["user"]]
      /\ fo' = [fo EXCEPT !["user"] = 0]
      /\ pc' = [pc EXCEPT !["user"] = "ur0"]
      /\ UNCHANGED << nstate, exq, neps, tick, psched, qtick, qsched, qendprev, 
                      qstart, sidx, stopFut, startFut, cstate, cexq, ctick, 
                      prevrecv, midx, qnext, qtsin, qzipd, qzipm, qmsgs, 
                      qexpsel, qexptm, qtsmax, qgrouped, cstopFut, fut, nf, 
                      qact, qobs, fobs, mustReset, initialStep, hi, raised, 
                      recSteps, recMsgs, execd, episode, skipCnt, st, k_, fact, 
                      newobs, skippedStep, oi_, tm, sc_, ep, phase, tstart, 
                      tend, d, oi, ii_, psb, k, s, ii_P, ii, cnt_, g, cnt_P, 
                      ts, cnt_E, N, cnt, sc, tseq, tts, teps, recv, iseq, its, 
                      ieps, ni_, cf, ni, ci, rf, task, ctask >>

u9 == /\ pc["user"] = "u9"
      /\ TRUE
      /\ pc' = [pc EXCEPT !["user"] = "Done"]
      /\ UNCHANGED << nstate, exq, neps, tick, psched, qtick, qsched, qendprev, 
                      qstart, sidx, stopFut, startFut, cstate, cexq, ctick, 
                      prevrecv, midx, qnext, qtsin, qzipd, qzipm, qmsgs, 
                      qexpsel, qexptm, qtsmax, qgrouped, cstopFut, fut, nf, 
                      qact, qobs, fobs, mustReset, initialStep, hi, raised, 
                      recSteps, recMsgs, execd, episode, skipCnt, stack, st, 
                      k_, fact, newobs, skippedStep, oi_, tm, sc_, ep, phase, 
                      tstart, tend, d, oi, ii_, psb, k, s, ii_P, ii, cnt_, g, 
                      cnt_P, ts, cnt_E, N, cnt, sc, tseq, tts, teps, recv, 
                      iseq, its, ieps, ni_, cf, ni, ci, fo, rf, task, ctask >>

U == u0 \/ u5 \/ u1 \/ u2 \/ u3 \/ u4 \/ u9

nw0(self) == /\ pc[self] = "nw0"
             /\ exq[self] # <<>>
             /\ task' = [task EXCEPT ![self] = Head(exq[self])]
             /\ exq' = [exq EXCEPT ![self] = Tail(exq[self])]
             /\ IF task'[self].name = "push_sched"
                   THEN /\ stack' = [stack EXCEPT ![self] = << [ procedure |->  "PushSched",
                                                                 pc        |->  "nw0",
                                                                 k         |->  k[self],
                                                                 s         |->  s[self],
                                                                 ii_P      |->  ii_P[self] ] >>
                                                             \o stack[self]]
                        /\ k' = [k EXCEPT ![self] = 0]
                        /\ s' = [s EXCEPT ![self] = 0]
                        /\ ii_P' = [ii_P EXCEPT ![self] = 1]
                        /\ pc' = [pc EXCEPT ![self] = "ps0"]
                        /\ UNCHANGED << nstate, startFut, st, k_, fact, newobs, 
                                        skippedStep, oi_, tm, sc_, ep, phase, 
                                        tstart, tend, d, oi, ii_, psb, ii >>
                   ELSE /\ IF task'[self].name = "push_phase"
                              THEN /\ stack' = [stack EXCEPT ![self] = << [ procedure |->  "PushPhase",
                                                                            pc        |->  "nw0",
                                                                            tm        |->  tm[self],
                                                                            sc_       |->  sc_[self],
                                                                            ep        |->  ep[self],
                                                                            phase     |->  phase[self],
                                                                            tstart    |->  tstart[self],
                                                                            tend      |->  tend[self],
                                                                            d         |->  d[self],
                                                                            oi        |->  oi[self],
                                                                            ii_       |->  ii_[self],
                                                                            psb       |->  psb[self] ] >>
                                                                        \o stack[self]]
                                   /\ tm' = [tm EXCEPT ![self] = 0]
                                   /\ sc_' = [sc_ EXCEPT ![self] = <<>>]
                                   /\ ep' = [ep EXCEPT ![self] = 0]
                                   /\ phase' = [phase EXCEPT ![self] = 0]
                                   /\ tstart' = [tstart EXCEPT ![self] = 0]
                                   /\ tend' = [tend EXCEPT ![self] = 0]
                                   /\ d' = [d EXCEPT ![self] = 0]
                                   /\ oi' = [oi EXCEPT ![self] = 1]
                                   /\ ii_' = [ii_ EXCEPT ![self] = 1]
                                   /\ psb' = [psb EXCEPT ![self] = 0]
                                   /\ pc' = [pc EXCEPT ![self] = "pp0"]
                                   /\ UNCHANGED << nstate, startFut, st, k_, 
                                                   fact, newobs, skippedStep, 
                                                   oi_, ii >>
                              ELSE /\ IF task'[self].name = "push_step"
                                         THEN /\ stack' = [stack EXCEPT ![self] = << [ procedure |->  "PushStep",
                                                                                       pc        |->  "nw0",
                                                                                       st        |->  st[self],
                                                                                       k_        |->  k_[self],
                                                                                       fact      |->  fact[self],
                                                                                       newobs    |->  newobs[self],
                                                                                       skippedStep |->  skippedStep[self],
                                                                                       oi_       |->  oi_[self] ] >>
                                                                                   \o stack[self]]
                                              /\ st' = [st EXCEPT ![self] = <<>>]
                                              /\ k_' = [k_ EXCEPT ![self] = 0]
                                              /\ fact' = [fact EXCEPT ![self] = 0]
                                              /\ newobs' = [newobs EXCEPT ![self] = 0]
                                              /\ skippedStep' = [skippedStep EXCEPT ![self] = FALSE]
                                              /\ oi_' = [oi_ EXCEPT ![self] = 1]
                                              /\ pc' = [pc EXCEPT ![self] = "pst0"]
                                              /\ UNCHANGED << nstate, startFut, 
                                                              ii >>
                                         ELSE /\ IF task'[self].name = "starting"
                                                    THEN /\ nstate' = [nstate EXCEPT ![self] = "READY_TO_START"]
                                                         /\ startFut' = [startFut EXCEPT ![self] = "done"]
                                                         /\ pc' = [pc EXCEPT ![self] = "nw0"]
                                                         /\ UNCHANGED << stack, 
                                                                         ii >>
                                                    ELSE /\ stack' = [stack EXCEPT ![self] = << [ procedure |->  "NodeStopping",
                                                                                                  pc        |->  "nw0",
                                                                                                  ii        |->  ii[self] ] >>
                                                                                              \o stack[self]]
                                                         /\ ii' = [ii EXCEPT ![self] = 1]
                                                         /\ pc' = [pc EXCEPT ![self] = "ns0"]
                                                         /\ UNCHANGED << nstate, 
                                                                         startFut >>
                                              /\ UNCHANGED << st, k_, fact, 
                                                              newobs, 
                                                              skippedStep, oi_ >>
                                   /\ UNCHANGED << tm, sc_, ep, phase, tstart, 
                                                   tend, d, oi, ii_, psb >>
                        /\ UNCHANGED << k, s, ii_P >>
             /\ UNCHANGED << neps, tick, psched, qtick, qsched, qendprev, 
                             qstart, sidx, stopFut, cstate, cexq, ctick, 
                             prevrecv, midx, qnext, qtsin, qzipd, qzipm, qmsgs, 
                             qexpsel, qexptm, qtsmax, qgrouped, cstopFut, fut, 
                             nf, qact, qobs, fobs, mustReset, initialStep, hi, 
                             raised, recSteps, recMsgs, execd, episode, 
                             skipCnt, cnt_, g, cnt_P, ts, cnt_E, N, cnt, sc, 
                             tseq, tts, teps, recv, iseq, its, ieps, ni_, cf, 
                             ni, ci, fo, rf, ctask >>

NW(self) == nw0(self)

cw0(self) == /\ pc[self] = "cw0"
             /\ cexq[self] # <<>>
             /\ ctask' = [ctask EXCEPT ![self] = Head(cexq[self])]
             /\ cexq' = [cexq EXCEPT ![self] = Tail(cexq[self])]
             /\ IF ctask'[self].name = "exp_blocking"
                   THEN /\ stack' = [stack EXCEPT ![self] = << [ procedure |->  "ExpBlocking",
                                                                 pc        |->  "cw0",
                                                                 N         |->  N[self],
                                                                 cnt       |->  cnt[self],
                                                                 sc        |->  sc[self] ] >>
                                                             \o stack[self]]
                        /\ N' = [N EXCEPT ![self] = 0]
                        /\ cnt' = [cnt EXCEPT ![self] = 0]
                        /\ sc' = [sc EXCEPT ![self] = 0]
                        /\ pc' = [pc EXCEPT ![self] = "eb0"]
                        /\ UNCHANGED << cstate, cstopFut, ts, cnt_E, tseq, tts, 
                                        teps, recv, iseq, its, ieps >>
                   ELSE /\ IF ctask'[self].name = "exp_nonblocking"
                              THEN /\ stack' = [stack EXCEPT ![self] = << [ procedure |->  "ExpNonblocking",
                                                                            pc        |->  "cw0",
                                                                            ts        |->  ts[self],
                                                                            cnt_E     |->  cnt_E[self] ] >>
                                                                        \o stack[self]]
                                   /\ ts' = [ts EXCEPT ![self] = 0]
                                   /\ cnt_E' = [cnt_E EXCEPT ![self] = 0]
                                   /\ pc' = [pc EXCEPT ![self] = "en0"]
                                   /\ UNCHANGED << cstate, cstopFut, tseq, tts, 
                                                   teps, recv, iseq, its, ieps >>
                              ELSE /\ IF ctask'[self].name = "ts_input"
                                         THEN /\ /\ stack' = [stack EXCEPT ![self] = << [ procedure |->  "TsInput",
                                                                                          pc        |->  "cw0",
                                                                                          recv      |->  recv[self],
                                                                                          tseq      |->  tseq[self],
                                                                                          tts       |->  tts[self],
                                                                                          teps      |->  teps[self] ] >>
                                                                                      \o stack[self]]
                                                 /\ teps' = [teps EXCEPT ![self] = ctask'[self].eps]
                                                 /\ tseq' = [tseq EXCEPT ![self] = ctask'[self].seq]
                                                 /\ tts' = [tts EXCEPT ![self] = ctask'[self].ts]
                                              /\ recv' = [recv EXCEPT ![self] = 0]
                                              /\ pc' = [pc EXCEPT ![self] = "ti0"]
                                              /\ UNCHANGED << cstate, cstopFut, 
                                                              iseq, its, ieps >>
                                         ELSE /\ IF ctask'[self].name = "input"
                                                    THEN /\ /\ ieps' = [ieps EXCEPT ![self] = ctask'[self].eps]
                                                            /\ iseq' = [iseq EXCEPT ![self] = ctask'[self].seq]
                                                            /\ its' = [its EXCEPT ![self] = ctask'[self].ts]
                                                            /\ stack' = [stack EXCEPT ![self] = << [ procedure |->  "MsgInput",
                                                                                                     pc        |->  "cw0",
                                                                                                     iseq      |->  iseq[self],
                                                                                                     its       |->  its[self],
                                                                                                     ieps      |->  ieps[self] ] >>
                                                                                                 \o stack[self]]
                                                         /\ pc' = [pc EXCEPT ![self] = "mi0"]
                                                         /\ UNCHANGED << cstate, 
                                                                         cstopFut >>
                                                    ELSE /\ cstate' = [cstate EXCEPT ![self] = "STOPPED"]
                                                         /\ cstopFut' = [cstopFut EXCEPT ![self] = "done"]
                                                         /\ pc' = [pc EXCEPT ![self] = "cw0"]
                                                         /\ UNCHANGED << stack, 
                                                                         iseq, 
                                                                         its, 
                                                                         ieps >>
                                              /\ UNCHANGED << tseq, tts, teps, 
                                                              recv >>
                                   /\ UNCHANGED << ts, cnt_E >>
                        /\ UNCHANGED << N, cnt, sc >>
             /\ UNCHANGED << nstate, exq, neps, tick, psched, qtick, qsched, 
                             qendprev, qstart, sidx, stopFut, startFut, ctick, 
                             prevrecv, midx, qnext, qtsin, qzipd, qzipm, qmsgs, 
                             qexpsel, qexptm, qtsmax, qgrouped, fut, nf, qact, 
                             qobs, fobs, mustReset, initialStep, hi, raised, 
                             recSteps, recMsgs, execd, episode, skipCnt, st, 
                             k_, fact, newobs, skippedStep, oi_, tm, sc_, ep, 
                             phase, tstart, tend, d, oi, ii_, psb, k, s, ii_P, 
                             ii, cnt_, g, cnt_P, ni_, cf, ni, ci, fo, rf, task >>

CW(self) == cw0(self)

Next == U
           \/ (\E self \in ProcSet:  \/ PushStep(self) \/ PushPhase(self)
                                     \/ PushSched(self) \/ NodeStopping(self)
                                     \/ PushSelection(self) \/ PushTsMax(self)
                                     \/ PushZip(self) \/ ExpNonblocking(self)
                                     \/ ExpBlocking(self) \/ TsInput(self)
                                     \/ MsgInput(self) \/ Stop(self)
                                     \/ Start(self) \/ RunUntilSup(self)
                                     \/ RunSup(self))
           \/ (\E self \in Nodes: NW(self))
           \/ (\E self \in Conns: CW(self))

Spec == /\ Init /\ [][Next]_vars
        /\ /\ WF_vars(U)
           /\ WF_vars(Start("user"))
           /\ WF_vars(RunUntilSup("user"))
           /\ WF_vars(RunSup("user"))
           /\ WF_vars(Stop("user"))
        /\ \A self \in Nodes : /\ WF_vars(NW(self))
                               /\ WF_vars(PushSched(self))
                               /\ WF_vars(PushPhase(self))
                               /\ WF_vars(PushStep(self))
                               /\ WF_vars(NodeStopping(self))
        /\ \A self \in Conns : /\ WF_vars(CW(self))
                               /\ WF_vars(ExpBlocking(self))
                               /\ WF_vars(ExpNonblocking(self))
                               /\ WF_vars(TsInput(self))
                               /\ WF_vars(MsgInput(self))
                               /\ WF_vars(PushSelection(self))
                               /\ WF_vars(PushTsMax(self))
                               /\ WF_vars(PushZip(self))

\* END TRANSLATION 
=============================================================================
