------------------------------- MODULE RexOrder -------------------------------
(***************************************************************************)
(* Order-only validation of episode records (C03) for executions whose      *)
(* time stamps are not on the verification grid: continuous delay           *)
(* distributions (Normal, mixtures) under the simulated clock, and          *)
(* wall-clock episodes.  Times are integers (microseconds, rounded          *)
(* monotonically), so only clauses that compare recorded values are         *)
(* stated, and non-strictly where rounding could create a tie:              *)
(*   steps: gap-free sequence numbers from 0, no overlap                    *)
(*   messages: gap-free from 0, received no earlier than sent, FIFO,        *)
(*             consumer steps non-decreasing, sent = end of the sending     *)
(*             step, never consumed by a step that started before arrival,  *)
(*             (simulated clock, non-blocking LATEST) consumed by the first *)
(*             step starting at/after arrival                               *)
(*   windows:  what the probe saw at step k = the last `window` messages    *)
(*             consumed up to k, oldest first                               *)
(***************************************************************************)
EXTENDS Integers, Sequences, FiniteSets, TLC, Json, IOUtils, TLCExt

Traces == JsonDeserialize(IOEnv.TRACE_FILE)
VARIABLES tid, fin
vars == <<tid, fin>>
T == Traces[tid]
NoErr == <<>>
Err(clause, at, exp, got) == [clause |-> clause, at |-> at, exp |-> exp, got |-> got]
LastN(s, n) == IF Len(s) <= n THEN s ELSE SubSeq(s, Len(s) - n + 1, Len(s))

NodeErr(t, n) ==
  LET s == t.steps[n]
      b1 == {i \in 1..Len(s) : s[i].seq # i - 1}
      b2 == {i \in 1..Len(s) : s[i].end < s[i].start \/ (i > 1 /\ s[i].start < s[i - 1].end)}
      \* every episode starts from time 0 on every node: with the wall clock the episode's clock is read when the nodes START, not before the
      \* (arbitrarily long) startup() hooks run; t.t0bound = the startup time the harness injected, far above any phase (present only then)
      \* (the first step's START is nominal under the wall clock - previous end 0 - so the measured quantity is its END)
      b0 == "t0bound" \in DOMAIN t /\ Len(s) > 0 /\ s[1].end >= t.t0bound
  IN IF b0 THEN Err("EpisodeClockStartsAtZero", <<n, 0>>, t.t0bound, s[1].end)
     ELSE IF b1 # {} THEN Err("StepSeqGapFree", <<n, CHOOSE i \in b1 : TRUE>>, "seq = index", "violated")
     ELSE IF b2 # {} THEN LET i == CHOOSE i \in b2 : TRUE IN Err("StepsDoNotOverlap", <<n, i - 1>>, IF i > 1 THEN s[i - 1].end ELSE 0, s[i].start)
     ELSE NoErr

ConnErr(t, x) ==
  LET c == t.cfg.conns[x]
      m == t.msgs[x]
      ss == t.steps[c.src]
      sd == t.steps[c.dst]
      b1 == {i \in 1..Len(m) : m[i].seq_out # i - 1}
      b2 == {i \in 1..Len(m) : m[i].recv < m[i].sent}
      b3 == {i \in 2..Len(m) : m[i].recv < m[i - 1].recv \/ m[i].seq_in < m[i - 1].seq_in}
      b4 == {i \in 1..Len(m) : m[i].seq_out < Len(ss) /\ ss[m[i].seq_out + 1].end # m[i].sent}
      b5 == {i \in 1..Len(m) : m[i].seq_in >= 0 /\ m[i].seq_in < Len(sd) /\ sd[m[i].seq_in + 1].start < m[i].recv}
      b6 == {i \in 1..Len(m) : t.first_eligible /\ ~c.blocking /\ ~c.buffer /\ m[i].seq_in > 0 /\ m[i].seq_in <= Len(sd)
                               /\ sd[m[i].seq_in].start > m[i].recv}     \* the previous step started strictly after the arrival: it should have taken it
      \* windows seen by the probe at step k
      consumedUpTo(k) == SelectSeq([i \in 1..Len(m) |-> m[i].seq_out], LAMBDA q : m[q + 1].seq_in <= k)
      b7 == {k \in 0..(Len(t.wins[x]) - 1) :
               LET w == t.wins[x][k + 1]
                   real == SelectSeq(w, LAMBDA v : v >= 0)
               IN real # LastN(consumedUpTo(k), c.window) \/ Len(w) # c.window}
  IN IF b1 # {} THEN Err("MsgSeqGapFree", <<x, CHOOSE i \in b1 : TRUE>>, "seq_out = index", "violated")
     ELSE IF b2 # {} THEN LET i == CHOOSE i \in b2 : TRUE IN Err("MsgCausal", <<x, i - 1>>, m[i].sent, m[i].recv)
     ELSE IF b3 # {} THEN LET i == CHOOSE i \in b3 : TRUE IN Err("MsgFifo", <<x, i - 1>>, m[i - 1], m[i])
     ELSE IF b4 # {} THEN LET i == CHOOSE i \in b4 : TRUE IN Err("MsgSentIsEnd", <<x, i - 1>>, ss[m[i].seq_out + 1].end, m[i].sent)
     ELSE IF b5 # {} THEN LET i == CHOOSE i \in b5 : TRUE IN Err("ConsumedBeforeArrival", <<x, i - 1>>, m[i].recv, sd[m[i].seq_in + 1].start)
     ELSE IF b6 # {} THEN LET i == CHOOSE i \in b6 : TRUE IN Err("ConsumerIsFirstStepAfterArrival", <<x, i - 1>>, m[i].recv, sd[m[i].seq_in].start)
     ELSE IF b7 # {} THEN LET k == CHOOSE k \in b7 : TRUE IN Err("WindowIsMostRecent", <<x, k>>, LastN(consumedUpTo(k), c.window), t.wins[x][k + 1])
     ELSE NoErr

RECURSIVE FirstN(_, _)
FirstN(t, S) == IF S = {} THEN NoErr ELSE LET a == CHOOSE z \in S : TRUE IN IF NodeErr(t, a) # NoErr THEN NodeErr(t, a) ELSE FirstN(t, S \ {a})
RECURSIVE FirstC(_, _)
FirstC(t, S) == IF S = {} THEN NoErr ELSE LET a == CHOOSE z \in S : TRUE IN IF ConnErr(t, a) # NoErr THEN ConnErr(t, a) ELSE FirstC(t, S \ {a})
(* C02 for off-grid episodes: another run of the same system from the same initial graph state under another thread schedule (t.ref) *)
(* agrees with this one on the common prefix of what both recorded (identical floats project to identical integers)                *)
Prefix(a, b) == LET n == IF Len(a) <= Len(b) THEN Len(a) ELSE Len(b) IN SubSeq(a, 1, n) = SubSeq(b, 1, n)
RefErr(t) ==
  IF ~("ref" \in DOMAIN t) THEN NoErr ELSE
  LET bn == {n \in DOMAIN t.steps : ~Prefix(t.steps[n], t.ref.steps[n])}
      bx == {x \in DOMAIN t.msgs : ~Prefix(t.msgs[x], t.ref.msgs[x])}
  IN IF bn # {} THEN LET n == CHOOSE n \in bn : TRUE IN Err("DeterministicAcrossSchedules", <<n>>, t.ref.steps[n], t.steps[n])
     ELSE IF bx # {} THEN LET x == CHOOSE x \in bx : TRUE IN Err("DeterministicAcrossSchedules", <<x>>, t.ref.msgs[x], t.msgs[x])
     ELSE NoErr
TraceErr(t) == IF FirstN(t, DOMAIN t.steps) # NoErr THEN FirstN(t, DOMAIN t.steps)
               ELSE IF FirstC(t, DOMAIN t.msgs) # NoErr THEN FirstC(t, DOMAIN t.msgs) ELSE RefErr(t)

Verdict(e) ==
  PrintT("VERDICT|" \o ToString(tid) \o "|" \o T.id \o "|" \o (IF e = NoErr THEN "accept" ELSE "reject") \o "|"
         \o (IF e = NoErr THEN "-" ELSE e.clause) \o "|" \o ToString(e))
OInit == tid = 1 /\ fin = FALSE
ONext == /\ ~fin /\ Verdict(TraceErr(T))
         /\ IF tid < Len(Traces) THEN tid' = tid + 1 /\ fin' = FALSE ELSE fin' = TRUE /\ tid' = tid
OSpec == OInit /\ [][ONext]_vars
=============================================================================
