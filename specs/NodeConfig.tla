------------------------------- MODULE NodeConfig -------------------------------
(***************************************************************************)
(* Configuration objects of rex (rex/node.py): nodes with an expected       *)
(* computation delay and a delay distribution, connections with skip flag,  *)
(* expected communication delay, distribution and an optional shadow input  *)
(* name; the derived phase; the info round trip.                            *)
(*                                                                         *)
(* Actions = the public configuration API:                                  *)
(*   Connect(dst, src, ...)      BaseNode.connect                           *)
(*   SetNodeDelay(n, dist, d)    BaseNode.set_delay                         *)
(*   SetConnDelay(x, dist, d)    Connection.set_delay                       *)
(*   RoundTrip                   from_info + connect_from_info on all nodes *)
(* Derived: Phase(n) = longest expected-delay path over un-skipped          *)
(* connections; Loop(n) = the phase of n is undefined because an un-skipped *)
(* cycle is reachable upstream (rex reports an algebraic loop).             *)
(*                                                                         *)
(* TLC checks the invariants and, in simulation mode, emits behaviours      *)
(* (history + abstract state after every action) that the harness replays   *)
(* on real BaseNode objects (C16).                                          *)
(***************************************************************************)
EXTENDS Integers, Sequences, FiniteSets, TLC, Json

CONSTANTS Nodes,      \* e.g. {"a","b","c"}
          Delays,     \* expected delays to choose from, e.g. {0, 1, 3}
          Dists,      \* distribution identifiers, e.g. {"D1", "D2"}
          MaxLen      \* history length

VARIABLES ndelay, ndist, conns, hist
vars == <<ndelay, ndist, conns, hist>>

(* a connection is identified by (src, dst); its input key at dst is the shadow name if given, else src *)
ConnKey(c) == IF c.shadow THEN "in_" \o c.src ELSE c.src
Ins(n) == {c \in conns : c.dst = n}
USIns(n) == {c \in Ins(n) : ~c.skip}

MaxSet(S) == CHOOSE x \in S : \A y \in S : x >= y

(* nodes reachable upstream over un-skipped connections (including n) *)
RECURSIVE UpFrom(_, _)
UpFrom(S, seen) == LET new == {c.src : c \in {c \in conns : c.dst \in S /\ ~c.skip}} \ seen IN
                   IF new = {} THEN seen ELSE UpFrom(new, seen \cup new)
Up(n) == UpFrom({n}, {n})
OnCycle(m) == m \in UpFrom({c.src : c \in USIns(m)}, {c.src : c \in USIns(m)})
Loop(n) == \E m \in Up(n) : OnCycle(m)

RECURSIVE Phase(_)
Phase(n) == IF USIns(n) = {} THEN 0
            ELSE MaxSet({0} \cup {Phase(c.src) + ndelay[c.src] + c.delay : c \in USIns(n)})
PhaseOrLoop(n) == IF Loop(n) THEN -1 ELSE Phase(n)

Abs == [nodes |-> [n \in Nodes |-> [delay |-> ndelay[n], dist |-> ndist[n], phase |-> PhaseOrLoop(n),
                                     inputs |-> {[key |-> ConnKey(c), src |-> c.src, skip |-> c.skip, delay |-> c.delay, dist |-> c.dist,
                                                  window |-> c.window, blocking |-> c.blocking,
                                                  phase |-> IF Loop(c.src) THEN -1 ELSE Phase(c.src) + ndelay[c.src] + c.delay] : c \in Ins(n)}]]]

Init == /\ ndelay \in [Nodes -> Delays]
        /\ ndist = [n \in Nodes |-> "D1"]
        /\ conns = {}
        /\ hist = <<[op |-> "init", delays |-> ndelay]>>

Connect(dst, src, skip, d, dist, shadow, window, blocking) ==
  /\ src # dst
  /\ ~\E c \in conns : c.src = src /\ c.dst = dst
  /\ conns' = conns \cup {[src |-> src, dst |-> dst, skip |-> skip, delay |-> d, dist |-> dist, shadow |-> shadow, window |-> window, blocking |-> blocking]}
  /\ hist' = Append(hist, [op |-> "connect", dst |-> dst, src |-> src, skip |-> skip, delay |-> d, dist |-> dist, shadow |-> shadow,
                           window |-> window, blocking |-> blocking])
  /\ UNCHANGED <<ndelay, ndist>>

(* connect() called again for the same pair under the same input name: the only way to re-configure an edge (rex has no disconnect).  The new
   connection REPLACES the old one - for the receiver (inputs), for the sender (outputs) and hence for everything derived from either *)
Reconnect(c, skip, d, dist, window, blocking) ==
  /\ c \in conns
  /\ conns' = (conns \ {c}) \cup {[src |-> c.src, dst |-> c.dst, skip |-> skip, delay |-> d, dist |-> dist, shadow |-> c.shadow, window |-> window, blocking |-> blocking]}
  /\ hist' = Append(hist, [op |-> "connect", dst |-> c.dst, src |-> c.src, skip |-> skip, delay |-> d, dist |-> dist, shadow |-> c.shadow,
                           window |-> window, blocking |-> blocking])
  /\ UNCHANGED <<ndelay, ndist>>

(* dist / d = "keep" or -1 mean: argument not given *)
SetNodeDelay(n, dist, d) ==
  /\ ndist' = IF dist = "keep" THEN ndist ELSE [ndist EXCEPT ![n] = dist]
  /\ ndelay' = IF d = -1 THEN ndelay ELSE [ndelay EXCEPT ![n] = d]
  /\ hist' = Append(hist, [op |-> "set_node_delay", node |-> n, dist |-> dist, delay |-> d])
  /\ UNCHANGED conns

SetConnDelay(c, dist, d) ==
  /\ c \in conns
  /\ conns' = (conns \ {c}) \cup {[c EXCEPT !.dist = IF dist = "keep" THEN c.dist ELSE dist, !.delay = IF d = -1 THEN c.delay ELSE d]}
  /\ hist' = Append(hist, [op |-> "set_conn_delay", dst |-> c.dst, src |-> c.src, dist |-> dist, delay |-> d])
  /\ UNCHANGED <<ndelay, ndist>>

(* rebuilding every node from its info is the identity on the abstract state *)
RoundTrip ==
  /\ \A n \in Nodes : ~Loop(n)        \* node.info needs the phase
  /\ hist' = Append(hist, [op |-> "round_trip"])
  /\ UNCHANGED <<ndelay, ndist, conns>>

Next ==
  /\ Len(hist) < MaxLen
  /\ \/ \E dst, src \in Nodes, skip, shadow, blocking \in BOOLEAN, d \in Delays, dist \in Dists, w \in 1..2 :
          Connect(dst, src, skip, d, dist, shadow, w, blocking)
     \/ \E c \in conns, skip, blocking \in BOOLEAN, d \in Delays, dist \in Dists, w \in 1..2 : Reconnect(c, skip, d, dist, w, blocking)
     \/ \E n \in Nodes, dist \in Dists \cup {"keep"}, d \in Delays \cup {-1} : SetNodeDelay(n, dist, d)
     \/ \E c \in conns, dist \in Dists \cup {"keep"}, d \in Delays \cup {-1} : SetConnDelay(c, dist, d)
     \/ RoundTrip

Spec == Init /\ [][Next]_vars

---------------------------------------------------------------------------
(* the phase is the longest path: no input path is longer, some path attains it *)
PhaseIsLongestPath ==
  \A n \in Nodes : ~Loop(n) =>
     /\ \A c \in USIns(n) : Phase(n) >= Phase(c.src) + ndelay[c.src] + c.delay
     /\ Phase(n) >= 0
     /\ (Phase(n) > 0 => \E c \in USIns(n) : Phase(n) = Phase(c.src) + ndelay[c.src] + c.delay)
     /\ (USIns(n) = {} => Phase(n) = 0)
(* a loop is reported exactly when an un-skipped cycle is reachable upstream *)
LoopIffCycle ==
  \A n \in Nodes : Loop(n) <=> \E m \in Up(n) : \E c \in USIns(m) : m \in UpFrom({c.src}, {c.src})
(* input keys of one node are unique unless the user chose clashing shadow names (not generated here) *)
KeysUnique == \A n \in Nodes : \A c1, c2 \in Ins(n) : ConnKey(c1) = ConnKey(c2) => c1 = c2

(* exhaustive configuration: the history is an observation variable (hidden by the VIEW); windows/blocking do not
   influence phases, so the exhaustive run fixes them *)
ViewNoHist == <<ndelay, ndist, conns, Len(hist)>>
SmallConns == \A c \in conns : c.window = 1 /\ ~c.blocking

(* emitted for replay: one JSON line per state *)
Emit == PrintT("NCFG|" \o ToJson([hist |-> hist, abs |-> Abs]))
=============================================================================
