SPECIFICATION SpecT
CONSTANTS
  Fixed = TRUE
  NumTokens = 2
  MaxTicks = 3
  MaxCalls = 5
INVARIANT NoRaise
INVARIANT Handshake
INVARIANT StoppedMeansQuiet
CONSTRAINT Bound
