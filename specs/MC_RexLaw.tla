------------------------------ MODULE MC_RexLaw ------------------------------
(***************************************************************************)
(* Model checking of the timing law alone: every sampled delay is chosen    *)
(* non-deterministically from the support of its distribution when the step *)
(* that draws it is taken, so the reachable states cover ALL delay          *)
(* histories of the bounded instance.  The configurations come from a JSON  *)
(* file (written by the check from its seeded generator plus a fixed set of *)
(* hand-made topologies); Init chooses one of them.                         *)
(*                                                                         *)
(* Because the law is an order-independent network, the steps are taken in  *)
(* one canonical order (the order-independence itself is checked separately *)
(* by MC_RexLawConfluence).                                                 *)
(*                                                                         *)
(* Invariants = the clauses of C03 / C04 that are theorems of the law.      *)
(***************************************************************************)
EXTENDS RexLaw, Json, IOUtils

MCCfgs == JsonDeserialize(IOEnv.MC_CFG_FILE)

VARIABLES cons   \* history: [conn -> Seq of [seq, sent, recv, tick, start, prevstart]] consumed messages in order
mcvars == <<lawvars, cons>>

K(n) == cfg.K   \* steps per node explored

MCInit == \E i \in 1..Len(MCCfgs) : LawInit(MCCfgs[i]) /\ cons = [x \in DOMAIN MCCfgs[i].conns |-> <<>>]

ConsOf(x) == cons[x]

(* start time of tick j of node n (timed steps are in hist) *)
StartOf(n, j) == hist[n][j + 1].start

RecordGroup(x, g, tick, start) ==
  cons' = [y \in DOMAIN cons |->
             IF y = x THEN ConsOf(x) \o [i \in 1..Len(g) |->
                    [seq |-> g[i].seq, sent |-> g[i].sent, recv |-> g[i].recv, tick |-> tick, start |-> start,
                     prevstart |-> IF tick = 0 THEN -1 ELSE StartOf(ConnC(x).dst, tick - 1)]]
             ELSE cons[y]]

TEnabled(n) == kt[n] < K(n) /\ TimeEnabled(n)
SEnabled(x) == SelTimed(x) /\ HasFuture(x)

DoTime(n) ==
  \E d \in SeqToSet(NodeC(n).cdist) :
  \E dc \in [Outs(n) -> UNION {SeqToSet(ConnC(y).cdist) : y \in Outs(n)} \cup {0}] :
    /\ \A y \in Outs(n) : dc[y] \in SeqToSet(ConnC(y).cdist)
    /\ LET EmitAll(y) == TRUE
           RecvMC(y, end) == Max2(end + dc[y], prevRecv[y])
           v == TimeVals(n, d)
       IN /\ TimeStep(n, d, EmitAll, RecvMC)
          /\ cons' = [y \in DOMAIN cons |->
                        IF y \in BIns(n)
                        THEN ConsOf(y) \o [i \in 1..Len(v.bg[y]) |->
                               [seq |-> v.bg[y][i].seq, sent |-> v.bg[y][i].sent, recv |-> v.bg[y][i].recv, tick |-> v.k,
                                start |-> v.start, prevstart |-> IF v.k = 0 THEN -1 ELSE StartOf(n, v.k - 1)]]
                        ELSE cons[y]]

DoSelect(x) == /\ RecordGroup(x, SelGroup(x), SelTick(x), SelStart(x))
               /\ Select(x)

DoExec(n) == ExecStep(n) /\ UNCHANGED cons

MCNext ==
  IF \E n \in Nodes : ExecEnabled(n) THEN DoExec(CHOOSE n \in Nodes : ExecEnabled(n))
  ELSE IF \E x \in Conns : SEnabled(x) THEN DoSelect(CHOOSE x \in Conns : SEnabled(x))
  ELSE \E n \in Nodes : TEnabled(n) /\ \A m \in Nodes : TEnabled(m) => kt[n] <= kt[m] /\ (kt[n] = kt[m] => NodeC(n).nid <= NodeC(m).nid) /\ DoTime(n)

MCSpec == MCInit /\ [][MCNext]_mcvars

---------------------------------------------------------------------------
OnlyB(n) == NodeC(n).advance /\ NBIns(n) = {}

(* C03: steps of one node have gap-free sequence numbers from 0 and never overlap *)
StepsGapFreeNonOverlap ==
  \A n \in Nodes : \A i \in 1..Len(hist[n]) :
     /\ hist[n][i].k = i - 1
     /\ hist[n][i].end >= hist[n][i].start
     /\ i > 1 => hist[n][i].start >= hist[n][i - 1].end

(* C04: start = latest of schedule(+drift), previous end, blocking arrivals; never before schedule unless advance-only-blocking *)
StartLaw ==
  \A n \in Nodes : \A i \in 1..Len(hist[n]) :
    LET r == hist[n][i] IN
    /\ r.sched = (i - 1) * NodeC(n).period + ph[n]
    /\ r.end = r.start + r.d /\ r.d \in SeqToSet(NodeC(n).cdist)
    /\ IF OnlyB(n) THEN r.start = Max2(r.tsmax, r.endprev)
       ELSE /\ r.start = Max2(Max2(r.tsmax, r.endprev), r.sched + r.psb)
            /\ r.start >= r.sched

(* C04: PHASE scheduling returns to the k/rate + phase grid as soon as the node has caught up *)
PhaseReturnsToGrid ==
  \A n \in Nodes : (~NodeC(n).freq /\ ~OnlyB(n)) =>
    \A i \in 1..Len(hist[n]) : LET r == hist[n][i] IN
       /\ r.psb = 0
       /\ (r.endprev <= r.sched /\ r.tsmax <= r.sched) => r.start = r.sched

(* C04: FREQUENCY scheduling: an overrun shifts all later scheduled times; starts stay >= one period apart
   whenever the earlier step was not held back by a blocking input *)
FrequencySpacing ==
  \A n \in Nodes : (NodeC(n).freq /\ ~OnlyB(n)) =>
    \A i \in 1..Len(hist[n]) - 1 : LET r == hist[n][i]  s == hist[n][i + 1] IN
       /\ s.psb >= r.psb
       /\ (r.tsmax <= Max2(r.endprev, r.sched + r.psb)) => s.start >= r.start + NodeC(n).period

(* C03/C04: messages are received no earlier than sent, FIFO, and each is consumed once, in order *)
MessagesCausalFifo ==
  \A x \in Conns :
    /\ \A i \in 1..Len(q[x]) : q[x][i].recv >= q[x][i].sent /\ (i > 1 => q[x][i].recv >= q[x][i - 1].recv)
    /\ \A i \in 1..Len(ConsOf(x)) :
         /\ ConsOf(x)[i].seq = i - 1
         /\ ConsOf(x)[i].recv >= ConsOf(x)[i].sent
         /\ i > 1 => ConsOf(x)[i].recv >= ConsOf(x)[i - 1].recv /\ ConsOf(x)[i].tick >= ConsOf(x)[i - 1].tick

(* C03: a message is never consumed by a step that started before it arrived; on non-blocking connections it is
   consumed by the FIRST step starting at/after its arrival (strictly after for skip; for BUFFER not before its
   expected arrival) *)
ConsumerIsFirstEligible ==
  \A x \in Conns : \A i \in 1..Len(ConsOf(x)) :
    LET c == ConsOf(x)[i]
        co == ConnC(x)
        arrivedBy(t) == c.recv < t \/ (c.recv = t /\ ~co.skip)
        expectedBy(t) == ~co.buffer \/ c.seq * NodeC(co.src).period + ConnPhase(x) <= t
    IN /\ c.recv <= c.start
       /\ ~co.blocking =>
            /\ arrivedBy(c.start) /\ expectedBy(c.start)
            /\ c.tick > 0 => ~(arrivedBy(c.prevstart) /\ expectedBy(c.prevstart))

(* C03: the window holds the most recent consumed messages, oldest first *)
WindowIsMostRecent ==
  \A x \in Conns :
    LET done == SelectSeq(ConsOf(x), LAMBDA c : c.tick < ke[ConnC(x).dst])
        W == ConnC(x).window
        realPart == LastN(done, W)
    IN /\ Len(win[x]) = W
       /\ \A i \in 1..Len(realPart) : win[x][W - Len(realPart) + i].seq = realPart[i].seq
                                      /\ win[x][W - Len(realPart) + i].recv = realPart[i].recv
       /\ \A i \in 1..(W - Len(realPart)) : win[x][i].seq = -1

(* vacuity guards: reachable situations that make the clauses above bite (checked as `never' properties by the harness) *)
SomeOverrun == \E n \in Nodes : \E i \in 1..Len(hist[n]) : hist[n][i].d > NodeC(n).period
SomeTie == \E x \in Conns : \E i \in 1..Len(ConsOf(x)) : ConsOf(x)[i].recv = ConsOf(x)[i].start
=============================================================================
