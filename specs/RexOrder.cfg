SPECIFICATION OSpec
CHECK_DEADLOCK FALSE
