SPECIFICATION TSpec
CONSTANTS
  Cfg <- TraceCfg
  Hist <- TraceHist
  NumTokens = 10
  defaultInitValue = 0
INVARIANT Report
POSTCONDITION Stuck
CHECK_DEADLOCK FALSE
