---------------------------- MODULE RexAsyncTrace ----------------------------
(***************************************************************************)
(* Internal-trace validation: the schedule of a REAL execution of           *)
(* rex.asynchronous.AsyncGraph under the coarse gate (which controlled      *)
(* thread was resumed at which kind of scheduling point, in order) must be  *)
(* a behaviour of RexAsync.  The configuration, the delay streams (computed *)
(* from the rng every GridDist was reset with) and the user's call history  *)
(* come from the trace file; nothing else is logged: every queue, state and *)
(* time stamp is reconstructed by the specification.  A thread between two  *)
(* scheduling points runs alone (SegmentAtomic), exactly like under the     *)
(* gate.  Acceptance = all events consumed; then the records the            *)
(* specification has built are printed and compared by the harness with the *)
(* real episode record (they must be equal where both exist).               *)
(***************************************************************************)
EXTENDS RexAsync, Json, IOUtils, TLCExt

TraceData == JsonDeserialize(IOEnv.TRACE_FILE)
TraceCfg == TraceData.cfg
TraceHist == TraceData.hist
Events == TraceData.events            \* <<thread, kind>>

VARIABLE l
tvars == <<vars, l>>

PointLabels == {"nw0", "cw0", "pst1", "pst2", "pst4", "pst6", "pp1", "pp2", "pp6", "ps3", "ns1", "ns2", "sel1", "tm1",
                "us1", "us2", "us4", "us7", "ua2", "ua5", "ua8", "ua9", "ur1", "ux1", "Done"}
Mid == {t \in ProcSet : ~(pc[t] \in PointLabels)}
(* one step of thread t (a step may return to the same label, e.g. a worker that ran a whole task) *)
Moves(t) == \/ t = "user" /\ U
            \/ t \in Nodes /\ NW(t)
            \/ t \in Conns /\ CW(t)
            \/ PushStep(t) \/ PushPhase(t) \/ PushSched(t) \/ NodeStopping(t) \/ PushSelection(t) \/ PushTsMax(t) \/ PushZip(t)
            \/ ExpNonblocking(t) \/ ExpBlocking(t) \/ TsInput(t) \/ MsgInput(t) \/ Stop(t) \/ Start(t) \/ RunUntilSup(t) \/ RunSup(t)

KindOf(lab) ==
  IF lab \in {"nw0", "cw0"} THEN "dequeue"
  ELSE IF lab \in {"pst4", "pst6", "pp1", "pp2", "pp6", "ps3", "sel1", "tm1", "ns1", "us1", "ua2", "ua9"} THEN "lock"
  ELSE IF lab \in {"pst1", "us2", "ua8", "ux1"} THEN "fut.set_result"
  ELSE IF lab \in {"pst2", "ns2", "us7", "ua5", "ur1"} THEN "fut.result"
  ELSE IF lab = "us4" THEN "fut.cancel"
  ELSE "none"

TInit == Init /\ l = 1

TNext ==
  IF Mid # {}
  THEN /\ (\E t \in Mid : Moves(t)) /\ UNCHANGED l                   \* the running thread finishes its segment
  ELSE /\ l <= Len(Events)
       /\ LET t == Events[l][1] IN
          /\ KindOf(pc[t]) = Events[l][2]
          /\ Moves(t)
       /\ l' = l + 1

TSpec == TInit /\ [][TNext]_tvars

(* progress report: the longest matched prefix, and at the end the reconstructed records *)
Report == /\ TLCSet(1, l)
          /\ (l = Len(Events) + 1 /\ Mid = {}) => PrintT("ACCEPTED|" \o ToJson([steps |-> recSteps, msgs |-> recMsgs, execd |-> execd]))
Stuck == PrintT(<<"MATCHED", TLCGet(1), Len(Events)>>)

DbgAt == 39
Dbg == (l >= DbgAt) => PrintT(<<"DBG", l, pc, [x \in Conns |-> <<qnext[x], qtsin[x], qexpsel[x], qmsgs[x], qzipd[x], qzipm[x], cexq[x]>>], qstart, Mid>>)
=============================================================================
