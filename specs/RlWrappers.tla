------------------------------- MODULE RlWrappers -------------------------------
(***************************************************************************)
(* The RL environment wrappers of rex/rl.py as one state machine over       *)
(* reward / termination histories, in the stacking PPO uses:                *)
(*   NormalizeVecReward( NormalizeVecObservation( VecEnv( Squash|Clip(      *)
(*       LogWrapper( AutoResetWrapper( Environment ))))))                   *)
(* The base environment is abstract: one env step = one graph step; its     *)
(* observation is the graph's step counter; reward and done flags come from *)
(* the history.  Integer rewards, batch of one, gamma = 1, so that the      *)
(* running moments are exact integer sums.                                  *)
(*                                                                         *)
(* TLC enumerates every history up to length L, checks the C19 invariants   *)
(* (log accounting per episode, auto-reset semantics, moments of everything *)
(* seen so far) and emits each history with the expected outputs of every   *)
(* step; the harness replays them on a real wrapped Environment over a      *)
(* compiled graph.                                                          *)
(***************************************************************************)
EXTENDS Integers, Sequences, FiniteSets, TLC, Json

CONSTANTS L, Rewards, Episodes   \* Episodes: the recorded episodes (schedules) of the compiled graph; {0} for the replayed histories
InitG == 1   \* graph step counter after Environment.reset (first partition run)
InitObs == 1

VARIABLES hist, st, outs
vars == <<hist, st, outs>>

Init ==
  /\ hist = <<>>
  /\ outs = <<>>
  /\ \E e \in Episodes : st = [eps |-> e, sched |-> e,               \* Environment.reset draws the episode (randomize_eps); its schedule is in force
           g |-> InitG, ret |-> 0, len |-> 0, rret |-> 0, rlen |-> 0, ts |-> 0,
           on |-> 1, osx |-> InitObs, osxx |-> InitObs * InitObs,        \* observation moments: the reset observation is seen
           rv |-> 0, rn |-> 0, rsx |-> 0, rsxx |-> 0]                     \* discounted-return moments

Step(r, te, tr, e) ==
  LET done == te \/ tr
      eps2 == IF done THEN e ELSE st.eps  \* AutoResetWrapper(fixed_init = FALSE): the episode is drawn anew; fixed_init: e = the stored one
      g1 == st.g + 1                      \* Environment.step = graph.step with the supervisor's output set from the action
      g2 == IF done THEN InitG ELSE g1    \* AutoResetWrapper: stored (or freshly drawn) initial state ...
      obs == IF done THEN InitObs ELSE g1 \* ... and its observation; reward and flags still describe the finished episode
      nret == st.ret + r
      nlen == st.len + 1
      rv == IF done THEN r ELSE st.rv + r
      n == [g |-> g2, eps |-> eps2, sched |-> eps2,   \* the reset state as a whole: episode number AND its schedule (timings_eps)
            ret |-> IF done THEN 0 ELSE nret, len |-> IF done THEN 0 ELSE nlen,
            rret |-> IF done THEN nret ELSE st.rret, rlen |-> IF done THEN nlen ELSE st.rlen, ts |-> st.ts + 1,
            on |-> st.on + 1, osx |-> st.osx + obs, osxx |-> st.osxx + obs * obs,
            rv |-> rv, rn |-> st.rn + 1, rsx |-> st.rsx + rv, rsxx |-> st.rsxx + rv * rv]
  IN /\ Len(hist) < L
     /\ hist' = Append(hist, [r |-> r, te |-> te, tr |-> tr])
     /\ st' = n
     /\ outs' = Append(outs, [obs |-> obs, r |-> r, te |-> te, tr |-> tr, done |-> done, g |-> g2, eps |-> n.eps, sched |-> n.sched, rret |-> n.rret, rlen |-> n.rlen, ts |-> n.ts,
                              on |-> n.on, osx |-> n.osx, osxx |-> n.osxx, rn |-> n.rn, rsx |-> n.rsx, rsxx |-> n.rsxx])

(* the configuration file cannot hold negative numbers: Rewards are codes, the reward is code - 1 *)
Next == \E rc \in Rewards, te, tr \in BOOLEAN, e \in Episodes : Step(rc - 1, te, tr, e)
Spec == Init /\ [][Next]_vars

---------------------------------------------------------------------------
RECURSIVE SumR(_, _, _)
SumR(h, a, b) == IF a > b THEN 0 ELSE h[a].r + SumR(h, a + 1, b)
Done(i) == hist[i].te \/ hist[i].tr
LastEndBefore(i) == LET S == {j \in 1..(i - 1) : Done(j)} IN IF S = {} THEN 0 ELSE CHOOSE j \in S : \A k \in S : j >= k

(* at each episode end the log reports exactly the sum of rewards and the number of steps since the previous end *)
LogAccounting ==
  \A i \in 1..Len(hist) : Done(i) =>
     /\ outs[i].rret = SumR(hist, LastEndBefore(i) + 1, i)
     /\ outs[i].rlen = i - LastEndBefore(i)
(* between ends the reported values do not change *)
LogStableBetweenEnds ==
  \A i \in 2..Len(hist) : ~Done(i) => outs[i].rret = outs[i - 1].rret /\ outs[i].rlen = outs[i - 1].rlen
(* auto-reset: the step after an episode ends starts from the initial state; otherwise the graph advances by one partition *)
AutoResetSemantics ==
  \A i \in 1..Len(hist) :
     /\ Done(i) => outs[i].g = InitG /\ outs[i].obs = InitObs
     /\ ~Done(i) => outs[i].g = (IF i = 1 THEN InitG ELSE outs[i - 1].g) + 1
     /\ outs[i].r = hist[i].r /\ outs[i].te = hist[i].te /\ outs[i].tr = hist[i].tr
(* the schedule in force is always the schedule of the episode in force, and the episode only changes at an episode end *)
ScheduleInForce ==
  /\ st.sched = st.eps
  /\ \A i \in 1..Len(hist) : outs[i].sched = outs[i].eps /\ (~Done(i) /\ i > 1 => outs[i].eps = outs[i - 1].eps)
(* running moments are those of everything seen so far *)
MomentsOfEverythingSeen ==
  /\ st.on = 1 + Len(hist)
  /\ st.osx = InitObs + SumR([i \in 1..Len(outs) |-> [r |-> outs[i].obs]], 1, Len(outs))
  /\ st.ts = Len(hist)

Emit == (Len(hist) = L) => PrintT("RLW|" \o ToJson([hist |-> hist, outs |-> outs]))
=============================================================================
