SPECIFICATION MCSpec
CHECK_DEADLOCK FALSE
INVARIANT StepsGapFreeNonOverlap
INVARIANT MessagesCausalFifo
INVARIANT ConsumerIsFirstEligible
INVARIANT WindowIsMostRecent
