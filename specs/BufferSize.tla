------------------------------- MODULE BufferSize -------------------------------
(***************************************************************************)
(* Sizing of the per-node output ring buffers of the compiled runtime (C08). *)
(*                                                                         *)
(* One producer P, one consumer C, a schedule of G positions (a position =   *)
(* one generation of one partition, in execution order).  At a position P   *)
(* may execute (it then writes its next sequence number at seq mod N AFTER   *)
(* the reads of that position) and C may execute (it then reads a window of  *)
(* W entries: the last W messages it has consumed so far, oldest first,      *)
(* entries that do not exist yet are -1 = "default output"; a read of entry  *)
(* e looks at ring[e mod N], and -1 mod N = N-1).  C only ever names         *)
(* messages that were written at an earlier position, and its windows move   *)
(* forward.                                                                 *)
(*                                                                         *)
(* Correct(N): every read finds the payload of the named sequence number     *)
(* (the never-written default for -1).  SafeN = the least such N.            *)
(* RexN = rex's rule (Timings.get_buffer_sizes): over all positions g,       *)
(*   max( max seq written before g  -  min entry read at or after g ) + 1.   *)
(*                                                                         *)
(* TLC checks FormulaSafe (RexN >= SafeN) and, as statistics, tightness, on  *)
(* every schedule of the bounded instance; every schedule is emitted and the *)
(* harness builds a synthetic rex Timings object from it and asks the real   *)
(* get_buffer_sizes().                                                       *)
(***************************************************************************)
EXTENDS Integers, Sequences, FiniteSets, TLC, Json

CONSTANTS G, Ws, MaxN

VARIABLES sched
vars == <<sched>>

NONE == -99
Max(S) == CHOOSE x \in S : \A y \in S : x >= y
Min(S) == CHOOSE x \in S : \A y \in S : x <= y

(* pw[p]: P executes at p;  last[p]: NONE if C does not execute at p, else the newest sequence number in its window (-1: nothing consumed yet) *)
Written(pw, p) == Cardinality({q \in 1..(p - 1) : pw[q]}) - 1          \* newest seq written strictly before position p (-1: none)
WellFormed(pw, last) ==
  /\ \A p \in 1..G : last[p] # NONE => last[p] >= -1 /\ last[p] <= Written(pw, p)
  /\ \A p, q \in 1..G : p < q /\ last[p] # NONE /\ last[q] # NONE => last[p] <= last[q]

Schedules == {[pw |-> pw, last |-> last, W |-> W] : pw \in [1..G -> BOOLEAN], last \in [1..G -> {NONE} \cup (-1..(G - 2))], W \in Ws}

WindowAt(s, p) == [j \in 1..s.W |-> LET e == s.last[p] - s.W + j IN IF e < 0 THEN -1 ELSE e]
SeqWrittenAt(s, p) == Written(s.pw, p) + 1

(* ring content before position p under size N: slot -> newest seq written there, NONE if never *)
RingBefore(s, N, p) ==
  [i \in 0..(N - 1) |-> LET ws == {SeqWrittenAt(s, q) : q \in {q \in 1..(p - 1) : s.pw[q] /\ SeqWrittenAt(s, q) % N = i}} IN IF ws = {} THEN NONE ELSE Max(ws)]
ReadOk(s, N, p) ==
  LET ring == RingBefore(s, N, p)
      w == WindowAt(s, p)
  IN \A j \in 1..s.W : IF w[j] < 0 THEN ring[(w[j] % N)] = NONE ELSE ring[w[j] % N] = w[j]
Correct(s, N) == \A p \in 1..G : s.last[p] # NONE => ReadOk(s, N, p)
SafeN(s) == IF \E N \in 1..MaxN : Correct(s, N) THEN Min({N \in 1..MaxN : Correct(s, N)}) ELSE MaxN + 1

(* rex's rule *)
MinInFrom(s, g) == LET es == {WindowAt(s, p)[1] : p \in {p \in g..G : s.last[p] # NONE}} IN IF es = {} THEN NONE ELSE Min(es)
RexN(s) ==
  LET terms == {Written(s.pw, g) - MinInFrom(s, g) : g \in {g \in 2..G : MinInFrom(s, g) # NONE /\ Written(s.pw, g) >= 0}}
  IN IF terms = {} THEN NONE ELSE Max(terms) + 1     \* NONE: rex computes a huge negative number (nothing written before anything is read)

Reads(s) == \E p \in 1..G : s.last[p] # NONE

Init == sched \in {s \in Schedules : WellFormed(s.pw, s.last) /\ Reads(s)}
Next == UNCHANGED sched
Spec == Init /\ [][Next]_vars

(* rex's size is floored at 1 by get_output_buffer when the rule gives nothing positive *)
EffRexN(s) == IF RexN(s) = NONE \/ RexN(s) < 1 THEN 1 ELSE RexN(s)
FormulaSafe == Correct(sched, EffRexN(sched))
(* several consumers of one producer (each with its own window and own reads): rex gives the producer ONE ring of the largest size any of its
   connections asks for (Timings.get_output_buffer: max over the connections).  That is safe for every consumer because correctness is monotone in
   the ring size: a larger ring never overwrites earlier.  NodeN = the size for a set of consumer schedules over the same writes. *)
Monotone == \A N \in 1..(MaxN - 1) : Correct(sched, N) => Correct(sched, N + 1)
NodeN(ss) == Max({EffRexN(s) : s \in ss})
FormulaTight == EffRexN(sched) = SafeN(sched)      \* not an invariant to be checked: statistics only

Emit == PrintT("BUF|" \o ToJson([pw |-> sched.pw, last |-> sched.last, W |-> sched.W, safe |-> SafeN(sched), rex |-> RexN(sched), eff |-> EffRexN(sched)]))
=============================================================================
