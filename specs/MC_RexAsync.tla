---------------------------- MODULE MC_RexAsync ----------------------------
(* Exhaustive exploration of RexAsync on small instances: every interleaving of the worker threads and the user (at the
   granularity of the coarse gate's scheduling points and finer).  NoStall = TLC's deadlock check (a state without successor
   while the user has not finished its call history). *)
EXTENDS RexAsync

CONSTANT MaxTick
UserDone == pc["user"] = "Done"
NextT == Next \/ (UserDone /\ UNCHANGED vars)
SpecT == Init /\ [][NextT]_vars
Bound == \A n \in Nodes : tick[n] <= MaxTick

(* Granularity of the coarse gate: between two scheduling points a thread runs alone.  A thread that stands at a label that is
   not a scheduling point is in the middle of such a segment and is the only one allowed to move. *)
PointLabels == {"nw0", "cw0", "pst1", "pst2", "pst4", "pst6", "pp1", "pp2", "pp6", "ps3", "ns1", "ns2", "sel1", "tm1",
                "us1", "us2", "us4", "us7", "ua2", "ua5", "ua8", "ua9", "ur1", "ux1", "Done"}
Mid == {t \in ProcSet : ~(pc[t] \in PointLabels)}
SegmentAtomic == Mid = {} \/ \E t \in Mid : pc'[t] # pc[t] \/ stack'[t] # stack[t]

NoRaise == raised = ""
(* C06: every executed tick of every node ran exactly once, in order *)
ExactlyOnce == \A n \in Nodes : \A i \in 1..Len(execd[n]) : execd[n][i] = i - 1
(* C05: each episode starts at tick 0 / time >= 0 and holds only steps and messages of its own episode *)
EpisodeIsolation ==
  /\ \A n \in Nodes : \A i \in 1..Len(recSteps[n]) : (recSteps[n][i].out = "val" => recSteps[n][i].tick = i - 1) /\ recSteps[n][i].eps = neps[n]
  /\ \A x \in Conns : \A i \in 1..Len(recMsgs[x]) : recMsgs[x][i].out = i - 1 /\ recMsgs[x][i].eps = neps[ConnC(x).dst]
(* C03: messages are consumed in order by non-decreasing receiver ticks, received no earlier than sent *)
MessagesOrdered ==
  \A x \in Conns : \A i \in 1..Len(recMsgs[x]) :
     /\ recMsgs[x][i].recv >= recMsgs[x][i].sent
     /\ i > 1 => recMsgs[x][i].recv >= recMsgs[x][i - 1].recv /\ recMsgs[x][i].in >= recMsgs[x][i - 1].in
(* C02: whatever the interleaving, the records of one episode agree on their common prefix.  The first terminal or
   quiescent record of each episode is remembered in a TLC register (run with -workers 1). *)
IsPrefixOrExt(a, b) == LET m == IF Len(a) <= Len(b) THEN Len(a) ELSE Len(b) IN SubSeq(a, 1, m) = SubSeq(b, 1, m)
Longer(a, b) == IF Len(a) >= Len(b) THEN a ELSE b
Rec == [steps |-> recSteps, msgs |-> recMsgs]
RegInit == \A e \in 1..4 : TLCSet(e, <<>>)
ASSUME RegInit
RecordsScheduleIndependent ==
  (episode >= 1) =>
    LET r == TLCGet(episode) IN
    IF r = <<>> THEN TLCSet(episode, Rec)
    ELSE /\ \A n \in Nodes : IsPrefixOrExt(r.steps[n], recSteps[n])
         /\ \A x \in Conns : IsPrefixOrExt(r.msgs[x], recMsgs[x])
         /\ TLCSet(episode, [steps |-> [n \in Nodes |-> Longer(r.steps[n], recSteps[n])], msgs |-> [x \in Conns |-> Longer(r.msgs[x], recMsgs[x])]])

(* ---- instances ------------------------------------------------------------ *)
CfgA == [nodes |-> [s |-> [period |-> 2, delay |-> 1, advance |-> FALSE, freq |-> TRUE, ins |-> <<"a>s">>, outs |-> <<"s>a">>],
                    a |-> [period |-> 4, delay |-> 0, advance |-> FALSE, freq |-> TRUE, ins |-> <<"s>a">>, outs |-> <<"a>s">>]],
         conns |-> [x \in {"s>a", "a>s"} |->
                     IF x = "s>a" THEN [src |-> "s", dst |-> "a", blocking |-> FALSE, skip |-> FALSE, buffer |-> FALSE, window |-> 2, delay |-> 1]
                     ELSE [src |-> "a", dst |-> "s", blocking |-> FALSE, skip |-> TRUE, buffer |-> FALSE, window |-> 1, delay |-> 0]],
         sup |-> "a", order |-> <<"s", "a">>,
         cstream |-> [s |-> <<1, 3, 1, 1, 1, 1, 1, 1>>, a |-> <<1, 1, 1, 1, 1, 1, 1, 1>>],
         mstream |-> [x \in {"s>a", "a>s"} |-> IF x = "s>a" THEN <<1, 3, 0, 1, 1, 1, 1, 1>> ELSE <<0, 2, 0, 0, 0, 0, 0, 0>>]]
HistA == <<"reset", "step", "stop">>
CfgB == [CfgA EXCEPT !.conns["s>a"].blocking = TRUE, !.conns["s>a"].window = 1]
HistB == <<"run", "run", "stop">>
=============================================================================
