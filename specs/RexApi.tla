------------------------------- MODULE RexApi -------------------------------
(***************************************************************************)
(* The public API of the compiled runtime as compositions of the two        *)
(* micro-operations of RexRun (RU = run_until_supervisor, RS =              *)
(* run_supervisor; RSo = run_supervisor overridden by the caller):          *)
(*     run = RU;RS    reset = RU    step = RS;RU    stepo = RSo;RU          *)
(*     rollout(n) = (RU;RS)^n                                                *)
(* TLC enumerates every call history up to MaxCalls calls that stays inside *)
(* the horizon (at most MaxRU partitions) and prints, for each, its normal  *)
(* form: the micro-op sequence with the no-op RS at step 0 removed and      *)
(* RSo identified with RS (the override passes the supervisor's own         *)
(* result).  Two histories with the same normal form must leave the real    *)
(* Graph in bitwise identical GraphStates (C09); the harness replays them.  *)
(***************************************************************************)
EXTENDS Integers, Sequences, TLC

CONSTANTS MaxCalls, MaxRU, Step0

Calls == {"run", "reset", "step", "stepo", "rollout:1", "rollout:2"}

OpsOf(c) == IF c = "run" THEN <<"RU", "RS">>
            ELSE IF c = "reset" THEN <<"RU">>
            ELSE IF c = "step" THEN <<"RS", "RU">>
            ELSE IF c = "stepo" THEN <<"RSo", "RU">>
            ELSE IF c = "rollout:1" THEN <<"RU", "RS">>
            ELSE <<"RU", "RS", "RU", "RS">>

VARIABLES hist, nf, step, nru, pend
vars == <<hist, nf, step, nru, pend>>

(* apply micro-ops to (normal form, step) *)
RECURSIVE Apply(_, _, _)
Apply(ops, f, s) ==
  IF ops = <<>> THEN <<f, s>>
  ELSE LET o == Head(ops) IN
       IF o = "RU" THEN Apply(Tail(ops), Append(f, "RU"), s + 1)
       ELSE IF s = 0 THEN Apply(Tail(ops), f, s)             \* run_supervisor before any partition ran: skipped
       ELSE Apply(Tail(ops), Append(f, "RS"), s)

CountRU(ops) == Len(SelectSeq(ops, LAMBDA o : o = "RU"))

(* protocol: the supervisor's step of a partition is run (or overridden) at most once, after that partition has run:
   RS needs a pending partition. run();step() would run the supervisor twice on the same partition - not a documented use *)
RECURSIVE Legal(_, _)
Legal(ops, p) == IF ops = <<>> THEN TRUE
                 ELSE IF Head(ops) = "RU" THEN Legal(Tail(ops), TRUE)
                 ELSE p /\ Legal(Tail(ops), FALSE)
RECURSIVE PendAfter(_, _)
PendAfter(ops, p) == IF ops = <<>> THEN p ELSE PendAfter(Tail(ops), Head(ops) = "RU")

Init == hist = <<>> /\ nf = <<>> /\ step = Step0 /\ nru = 0 /\ pend = FALSE

(* protocol: step() continues an episode that reset() or run() has begun ("Start every episode with a call to reset()",
   rex/graph.py); a step() on a freshly initialised graph state is not a documented use (DESIGN 6, C09) *)
Call(c) ==
  /\ Len(hist) < MaxCalls
  /\ Legal(OpsOf(c), pend)
  /\ pend' = PendAfter(OpsOf(c), pend)
  /\ nru + CountRU(OpsOf(c)) <= MaxRU
  /\ hist' = Append(hist, c)
  /\ LET r == Apply(OpsOf(c), nf, step) IN nf' = r[1] /\ step' = r[2]
  /\ nru' = nru + CountRU(OpsOf(c))

Next == \E c \in Calls : Call(c)
Spec == Init /\ [][Next]_vars

(* the step counter is the number of partitions run so far; run^n and rollout(n) and reset;step^(n-1);... agree by construction *)
StepIsPartitionCount == step = Step0 + nru
Emit == PrintT(<<"HIST", hist, nf, step>>)
=============================================================================
