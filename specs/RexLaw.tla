------------------------------- MODULE RexLaw -------------------------------
(***************************************************************************)
(* The timing-and-data law of a rex node graph under the simulated clock.   *)
(*                                                                         *)
(* A graph is a set of rate-driven nodes connected by delayed connections.  *)
(* The law is an (order-independent) network of three kinds of steps:       *)
(*                                                                         *)
(*   TimeStep(n)  - step k of node n gets its scheduled time, start time    *)
(*                  and end time as soon as the arrival times of the        *)
(*                  messages it must WAIT for (blocking inputs) are known;  *)
(*                  the time stamps of its output messages are emitted to   *)
(*                  every outgoing connection (FIFO-clamped receive times). *)
(*                  rex: push_scheduled_ts / push_phase_shift /             *)
(*                       push_expected_blocking / push_ts_max /             *)
(*                       push_ts_input                                      *)
(*   Select(x)    - a non-blocking connection decides which messages the    *)
(*                  next timed step of its receiver consumes (LATEST /      *)
(*                  BUFFER, skip tie rule).                                 *)
(*                  rex: push_expected_nonblocking / push_selection         *)
(*   ExecStep(n)  - step k of node n runs: the grouped messages of every    *)
(*                  input are pushed into the input windows, the probe hash *)
(*                  is advanced, the output payload becomes available.      *)
(*                  rex: push_step                                          *)
(*                                                                         *)
(* All times are integers (ticks of 1/64 s in conformance checking).        *)
(* The configuration is a *variable* that never changes, so that one TLC    *)
(* run can cover many topologies (model checking) or many traces (trace     *)
(* validation, see RexTrace.tla).                                           *)
(***************************************************************************)
EXTENDS Integers, Sequences, FiniteSets, TLC

Max2(a, b) == IF a >= b THEN a ELSE b
Min2(a, b) == IF a <= b THEN a ELSE b
MaxSet(S) == CHOOSE x \in S : \A y \in S : x >= y
RECURSIVE SumSeq(_)
SumSeq(s) == IF s = <<>> THEN 0 ELSE Head(s) + SumSeq(Tail(s))
SeqToSet(s) == {s[i] : i \in 1..Len(s)}
LastN(s, n) == IF Len(s) <= n THEN s ELSE SubSeq(s, Len(s) - n + 1, Len(s))

MOD == 100003  \* probe hash modulus (harness/probes.py)

VARIABLES
  cfg,       \* configuration record [nodes |-> [name -> ...], conns |-> [id -> ...], sup |-> name, eps |-> Int]
  ph,        \* [node -> Int]   node phase, derived from cfg
  kt,        \* [node -> Nat]   number of timed steps
  ke,        \* [node -> Nat]   number of executed steps
  endPrev,   \* [node -> Int]   end time of the last timed step (0 initially)
  ps,        \* [node -> Int]   accumulated scheduling phase shift (FREQUENCY mode)
  pend,      \* [node -> Seq]   timed but not yet executed steps
  q,         \* [conn -> Seq]   message time stamps emitted but not yet grouped: [seq, sent, recv]
  prevRecv,  \* [conn -> Int]   last receive time (FIFO clamp)
  nsel,      \* [conn -> Nat]   number of groups decided on this connection
  grp,       \* [conn -> Seq of Seq] decided groups not yet executed
  win,       \* [conn -> Seq]   input window of the receiver (oldest first)
  hcur,      \* [node -> Int]   probe hash (node state)
  outh,      \* [node -> Seq]   probe hash after each executed step = payload of each output
  hist       \* history: [node -> Seq of timed-step records], only read by invariants

lawvars == <<cfg, ph, kt, ke, endPrev, ps, pend, q, prevRecv, nsel, grp, win, hcur, outh, hist>>

---------------------------------------------------------------------------
(* Configuration accessors *)
Nodes == DOMAIN cfg.nodes
Conns == DOMAIN cfg.conns
NodeC(n) == cfg.nodes[n]
ConnC(x) == cfg.conns[x]
Ins(n) == {x \in Conns : ConnC(x).dst = n}
Outs(n) == {x \in Conns : ConnC(x).src = n}
BIns(n) == {x \in Ins(n) : ConnC(x).blocking}
NBIns(n) == {x \in Ins(n) : ~ConnC(x).blocking}

(* Node phase: longest expected-delay path over un-skipped connections. rex: BaseNode.phase *)
RECURSIVE PhaseOf(_, _)
PhaseOf(c, n) ==
  LET ins == {x \in DOMAIN c.conns : c.conns[x].dst = n /\ ~c.conns[x].skip}
  IN IF ins = {} THEN 0
     ELSE MaxSet({0} \cup {PhaseOf(c, c.conns[x].src) + c.nodes[c.conns[x].src].delay + c.conns[x].delay : x \in ins})

(* Connection phase: expected arrival offset of the sender's messages. rex: Connection.phase *)
ConnPhase(x) == ph[ConnC(x).src] + NodeC(ConnC(x).src).delay + ConnC(x).delay

(* Number of messages a blocking connection hands to receiver tick N. rex: push_expected_blocking *)
BlockCnt(x, N) ==
  LET co == ConnC(x)
      Po == NodeC(co.src).period
      Pi == NodeC(co.dst).period
      thigh == N * Pi + ph[co.dst]
      tlow == thigh - Pi
      T(i) == i * Po + ph[co.src]
      imax == (thigh - ph[co.src]) \div Po
      ok(i) == IF N = 0
               THEN IF co.skip THEN T(i) < thigh ELSE T(i) <= thigh
               ELSE IF co.skip THEN tlow <= T(i) /\ T(i) < thigh ELSE tlow < T(i) /\ T(i) <= thigh
  IN Cardinality({i \in 0..imax : ok(i)})

(* Eligibility of an arrived message for a non-blocking receiver step starting at `start`.
   LATEST: arrived at or before the start; strictly before for skipped connections.
   BUFFER: additionally not before its expected arrival time.                 *)
Eligible(x, m, start) ==
  LET co == ConnC(x)
      arrived == m.recv < start \/ (m.recv = start /\ ~co.skip)
  IN IF co.buffer
     THEN arrived /\ m.seq * NodeC(co.src).period + ConnPhase(x) <= start
     ELSE arrived

RECURSIVE TakePrefix(_, _, _)
TakePrefix(x, s, start) ==
  IF s = <<>> THEN <<>>
  ELSE IF Eligible(x, Head(s), start) THEN <<Head(s)>> \o TakePrefix(x, Tail(s), start)
  ELSE <<>>

(* Probe data layer (harness/probes.py) *)
PayloadHash(e) == (e.nid * 7 + (e.eps + 1) * 13 + (e.dseq + 1) * 17 + e.h + 3 * (e.h % 97) + 5 * (e.dseq + 1)) % MOD   \* the last two terms: the payload's two-element leaf [h mod 97, seq + 1]
EntryTerm(e) == (PayloadHash(e) + Max2(e.seq, -1) + 1) % MOD
DefaultEntry(x) == [seq |-> -1, sent |-> 0, recv |-> 0, nid |-> NodeC(ConnC(x).src).nid, eps |-> -1, dseq |-> -1, h |-> 0]
InitWin(x) == [i \in 1..ConnC(x).window |-> DefaultEntry(x)]
InitH(n) == NodeC(n).nid + 1
NextH(n, k, h, wins) ==
  \* wins: [input conn -> window]; acc is a sum over all inputs and window entries
  LET terms(x) == (SumSeq([i \in 1..Len(wins[x]) |-> EntryTerm(wins[x][i])])) % MOD
      RECURSIVE Acc(_)
      Acc(S) == IF S = {} THEN 0 ELSE LET x == CHOOSE y \in S : TRUE IN (terms(x) + Acc(S \ {x})) % MOD
  IN (((31 * h) % MOD) + (NodeC(n).p % MOD) + Acc(DOMAIN wins) + ((k + 1) % MOD)) % MOD

---------------------------------------------------------------------------
LawInit(c) ==
  /\ cfg = c
  /\ ph = [n \in DOMAIN c.nodes |-> PhaseOf(c, n)]
  /\ kt = [n \in DOMAIN c.nodes |-> 0]
  /\ ke = [n \in DOMAIN c.nodes |-> 0]
  /\ endPrev = [n \in DOMAIN c.nodes |-> 0]
  /\ ps = [n \in DOMAIN c.nodes |-> 0]
  /\ pend = [n \in DOMAIN c.nodes |-> <<>>]
  /\ q = [x \in DOMAIN c.conns |-> <<>>]
  /\ prevRecv = [x \in DOMAIN c.conns |-> 0]
  /\ nsel = [x \in DOMAIN c.conns |-> 0]
  /\ grp = [x \in DOMAIN c.conns |-> <<>>]
  /\ win = [x \in DOMAIN c.conns |-> [i \in 1..c.conns[x].window |->
              [seq |-> -1, sent |-> 0, recv |-> 0, nid |-> c.nodes[c.conns[x].src].nid, eps |-> -1, dseq |-> -1, h |-> 0]]]
  /\ hcur = [n \in DOMAIN c.nodes |-> c.nodes[n].nid + 1]
  /\ outh = [n \in DOMAIN c.nodes |-> <<>>]
  /\ hist = [n \in DOMAIN c.nodes |-> <<>>]

(* ---- TimeStep ---------------------------------------------------------- *)
TimeEnabled(n) == \A x \in BIns(n) : Len(q[x]) >= BlockCnt(x, kt[n])

(* The values the law gives to step kt[n] of node n, given its sampled computation delay d *)
TimeVals(n, d) ==
  LET k == kt[n]
      bg == [x \in BIns(n) |-> SubSeq(q[x], 1, BlockCnt(x, k))]
      recvs == UNION {{bg[x][i].recv : i \in 1..Len(bg[x])} : x \in BIns(n)}
      tsmax == MaxSet({0} \cup recvs)
      sched == k * NodeC(n).period + ph[n]
      onlyB == NodeC(n).advance /\ NBIns(n) = {}
      pin == tsmax - sched
      pl == endPrev[n] - sched
      phase == IF onlyB THEN Max2(pin, pl) ELSE Max2(Max2(pin, pl), ps[n])
      start == sched + phase
  IN [k |-> k, sched |-> sched, tsmax |-> tsmax, endprev |-> endPrev[n], psb |-> ps[n],
      psa |-> IF NodeC(n).freq THEN ps[n] + Max2(0, pl - ps[n]) ELSE 0,
      start |-> start, d |-> d, end |-> start + d, bg |-> bg]

(* Emit(y): does step k put a message time stamp on output y;  Recv(y, end): its receive time *)
TimeStep(n, d, Emit(_), Recv(_, _)) ==
  LET v == TimeVals(n, d) IN
  /\ TimeEnabled(n)
  /\ kt' = [kt EXCEPT ![n] = @ + 1]
  /\ endPrev' = [endPrev EXCEPT ![n] = v.end]
  /\ ps' = [ps EXCEPT ![n] = v.psa]
  /\ pend' = [pend EXCEPT ![n] = Append(@, [k |-> v.k, start |-> v.start, end |-> v.end])]
  /\ q' = [x \in Conns |->
            IF x \in BIns(n) THEN SubSeq(q[x], BlockCnt(x, v.k) + 1, Len(q[x]))
            ELSE IF x \in Outs(n) /\ Emit(x) THEN Append(q[x], [seq |-> v.k, sent |-> v.end, recv |-> Recv(x, v.end)])
            ELSE q[x]]
  /\ prevRecv' = [x \in Conns |-> IF x \in Outs(n) /\ Emit(x) THEN Recv(x, v.end) ELSE prevRecv[x]]
  /\ grp' = [x \in Conns |-> IF x \in BIns(n) THEN Append(grp[x], v.bg[x]) ELSE grp[x]]
  /\ nsel' = [x \in Conns |-> IF x \in BIns(n) THEN nsel[x] + 1 ELSE nsel[x]]
  /\ hist' = [hist EXCEPT ![n] = Append(@, [k |-> v.k, sched |-> v.sched, tsmax |-> v.tsmax, start |-> v.start,
                                              end |-> v.end, d |-> v.d, psb |-> v.psb, endprev |-> v.endprev])]
  /\ UNCHANGED <<cfg, ph, ke, win, hcur, outh>>

(* ---- Select ------------------------------------------------------------- *)
SelTick(x) == nsel[x]                                   \* receiver tick this group is for
SelTimed(x) == ~ConnC(x).blocking /\ nsel[x] < kt[ConnC(x).dst]
SelStart(x) == pend[ConnC(x).dst][nsel[x] - ke[ConnC(x).dst] + 1].start
HasFuture(x) == \E i \in 1..Len(q[x]) : q[x][i].recv > SelStart(x)   \* rex: has_ts_in_future
SelGroup(x) == TakePrefix(x, q[x], SelStart(x))

Select(x) ==
  /\ SelTimed(x)
  /\ LET g == SelGroup(x) IN
     /\ q' = [q EXCEPT ![x] = SubSeq(@, Len(g) + 1, Len(@))]
     /\ grp' = [grp EXCEPT ![x] = Append(@, g)]
  /\ nsel' = [nsel EXCEPT ![x] = @ + 1]
  /\ UNCHANGED <<cfg, ph, kt, ke, endPrev, ps, pend, prevRecv, win, hcur, outh, hist>>

(* ---- ExecStep ----------------------------------------------------------- *)
ExecEnabled(n) ==
  /\ ke[n] < kt[n]
  /\ \A x \in Ins(n) : /\ Len(grp[x]) >= 1
                       /\ \A i \in 1..Len(Head(grp[x])) : ke[ConnC(x).src] > Head(grp[x])[i].seq

EntryOf(x, m) == [seq |-> m.seq, sent |-> m.sent, recv |-> m.recv, nid |-> NodeC(ConnC(x).src).nid,
                  eps |-> cfg.eps, dseq |-> m.seq, h |-> outh[ConnC(x).src][m.seq + 1]]
NewWin(x) == LET g == Head(grp[x]) IN LastN(win[x] \o [i \in 1..Len(g) |-> EntryOf(x, g[i])], ConnC(x).window)
ExecWins(n) == [x \in Ins(n) |-> NewWin(x)]
ExecH(n) == NextH(n, ke[n], hcur[n], ExecWins(n))

ExecStep(n) ==
  /\ ExecEnabled(n)
  /\ ke' = [ke EXCEPT ![n] = @ + 1]
  /\ pend' = [pend EXCEPT ![n] = Tail(@)]
  /\ grp' = [x \in Conns |-> IF x \in Ins(n) THEN Tail(grp[x]) ELSE grp[x]]
  /\ win' = [x \in Conns |-> IF x \in Ins(n) THEN NewWin(x) ELSE win[x]]
  /\ hcur' = [hcur EXCEPT ![n] = ExecH(n)]
  /\ outh' = [outh EXCEPT ![n] = Append(@, ExecH(n))]
  /\ UNCHANGED <<cfg, ph, kt, endPrev, ps, q, prevRecv, nsel, hist>>

(* ---- SkipStep ----------------------------------------------------------- *)
(* A supervisor tick that is pending when the user stops the graph: rex records the tick (with the inputs it    *)
(* would have seen) but nobody executes it - no output, no new state, and the pushed inputs are dropped.         *)
(* rex: _Synchronizer._async_step returning (None, _SkippedSteps); push_step keeps the old _step_state.          *)
SkipStep(n) ==
  /\ ExecEnabled(n)
  /\ ke' = [ke EXCEPT ![n] = @ + 1]
  /\ pend' = [pend EXCEPT ![n] = Tail(@)]
  /\ grp' = [x \in Conns |-> IF x \in Ins(n) THEN Tail(grp[x]) ELSE grp[x]]
  /\ outh' = [outh EXCEPT ![n] = Append(@, -1)]
  /\ UNCHANGED <<cfg, ph, kt, endPrev, ps, q, prevRecv, nsel, hist, win, hcur>>

=============================================================================
