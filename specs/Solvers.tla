------------------------------- MODULE Solvers -------------------------------
(***************************************************************************)
(* Search solvers (rex/cem.py, rex/evo.py) as a state machine over loss     *)
(* vectors.  A candidate's loss is a small integer or NaN.                  *)
(*                                                                         *)
(*   Iterate(L): the population's losses L arrive; NaN counts as +infinity; *)
(*   the elites are the E smallest (ties by index); the best-so-far is      *)
(*   replaced when the iteration's best is not worse.                       *)
(*                                                                         *)
(* Part 1 (model): TLC explores all loss histories of the bounded instance, *)
(* checks the invariants of C18 and emits every history with the expected   *)
(* (best loss, best candidate, elite set) after each iteration; the harness *)
(* replays them on the real cem_update_mean_stdev.                          *)
(* Part 2 (trace validation): per-iteration logs of real cem_step / evo     *)
(* runs (losses incl. NaN, in-bounds flags, reported best loss, whether the *)
(* reported best member is a seen candidate with that loss).                *)
(***************************************************************************)
EXTENDS Integers, Sequences, FiniteSets, TLC, Json, IOUtils, TLCExt

CONSTANTS N,        \* population size
          E,        \* number of elites
          Losses,   \* finite loss values, e.g. 0..2
          MaxIt
NaN == -1
Inf == 1000000
Eff(l) == IF l = NaN THEN Inf ELSE l

VARIABLES best, bestId, it, hist, exp
mvars == <<best, bestId, it, hist, exp>>

(* candidates sorted by (effective loss, index) *)
Before(L, i, j) == Eff(L[i]) < Eff(L[j]) \/ (Eff(L[i]) = Eff(L[j]) /\ i < j)
Rank(L, i) == Cardinality({j \in 1..N : Before(L, j, i)})
Elites(L) == {i \in 1..N : Rank(L, i) < E}
Top(L) == CHOOSE i \in 1..N : Rank(L, i) = 0

MInit == best = Inf /\ bestId = <<0, 0>> /\ it = 0 /\ hist = <<>> /\ exp = <<>>

Iterate(L) ==
  LET c == Top(L)
      keep == best < Eff(L[c])
      nb == IF keep THEN best ELSE Eff(L[c])
      nid == IF keep THEN bestId ELSE <<it + 1, c>>
  IN /\ it < MaxIt
     /\ best' = nb /\ bestId' = nid /\ it' = it + 1
     /\ hist' = Append(hist, L)
     /\ exp' = Append(exp, [best |-> nb, best_it |-> nid[1], best_idx |-> nid[2], elites |-> Elites(L)])

MNext == \E L \in [1..N -> Losses \cup {NaN}] : Iterate(L)
MSpec == MInit /\ [][MNext]_mvars

Seen == {hist[k][i] : k \in 1..Len(hist), i \in 1..N}
FiniteSeen == {l \in Seen : l # NaN}
MinSet(S) == CHOOSE x \in S : \A y \in S : x <= y

BestIsMinFiniteSoFar == best = IF FiniteSeen = {} THEN Inf ELSE MinSet(FiniteSeen)
BestMemberAttainsIt == (best < Inf) => (bestId[1] >= 1 /\ hist[bestId[1]][bestId[2]] = best)
NaNNeverBestWhileFiniteExists == (FiniteSeen # {}) => best < Inf
NaNEliteOnlyIfAllFiniteAre ==
  \A k \in 1..Len(hist) : LET L == hist[k] IN
     (\E i \in exp[k].elites : L[i] = NaN) => (\A j \in 1..N : L[j] # NaN => j \in exp[k].elites)
BestNeverIncreases == [][best' <= best]_mvars

Emit == PrintT("SOLV|" \o ToJson([hist |-> hist, exp |-> exp]))

=============================================================================
