------------------------------- MODULE GraphAlgebra -------------------------------
(***************************************************************************)
(* Computation graphs and records as abstract values, and the operations    *)
(* rex offers on their concrete (padded array) representation:              *)
(*   record -> graph, stack (pad with -1), index, filter, to networkx.      *)
(*                                                                         *)
(* Abstract graph: per node kind the sequence of its vertices               *)
(* [seq, start, end]; per connection the sequence of its messages           *)
(* [out, in, recv].  The concrete representation pads to a common length    *)
(* with -1 rows; Strip removes padding.  The laws:                          *)
(*   Strip(Index(Stack(gs), i)) = gs[i]        padding never creates or     *)
(*                                             alters a vertex or edge      *)
(*   Filter(g, N) = restriction of g to N and the connections among N      *)
(*   ToNx(g) = executed vertices, stateful edges, consumed messages         *)
(*   ToGraph(rec) = the record's steps and messages                         *)
(* One case = the input(s) of one real call and its real result; TLC        *)
(* recomputes the right-hand side from the input and compares.              *)
(***************************************************************************)
EXTENDS Integers, Sequences, FiniteSets, TLC, Json, IOUtils, TLCExt

Cases == JsonDeserialize(IOEnv.TRACE_FILE)
VARIABLES cid, fin
vars == <<cid, fin>>
C == Cases[cid]
NoErr == <<>>
Err(clause, at, exp, got) == [clause |-> clause, at |-> at, exp |-> exp, got |-> got]
SeqToSet(s) == {s[i] : i \in 1..Len(s)}

(* ---- abstraction -------------------------------------------------------- *)
StripV(rows) == SelectSeq(rows, LAMBDA r : r.seq >= 0)
StripE(rows) == SelectSeq(rows, LAMBDA r : r.out >= 0)
Strip(g) == [verts |-> [n \in DOMAIN g.verts |-> StripV(g.verts[n])], edges |-> [x \in DOMAIN g.edges |-> StripE(g.edges[x])]]
PadOkV(rows) == \A i \in 1..Len(rows) : rows[i].seq < 0 => (rows[i].seq = -1 /\ \A j \in i..Len(rows) : rows[j].seq = -1)
PadOkE(rows) == \A i \in 1..Len(rows) : rows[i].out < 0 => (rows[i].out = -1 /\ rows[i].in = -1 /\ \A j \in i..Len(rows) : rows[j].out = -1)

(* ---- stack / index ------------------------------------------------------ *)
StackIndexErr(c) ==
  LET n == Len(c.eps)
      badlen == c.len # n
      bad == {i \in 1..n : Strip(c.indexed[i]) # c.eps[i]}
      badpad == {i \in 1..n : \/ \E k \in DOMAIN c.indexed[i].verts : ~PadOkV(c.indexed[i].verts[k])
                              \/ \E x \in DOMAIN c.indexed[i].edges : ~PadOkE(c.indexed[i].edges[x])}
      badkeys == {i \in 1..n : DOMAIN c.indexed[i].verts # DOMAIN c.eps[i].verts \/ DOMAIN c.indexed[i].edges # DOMAIN c.eps[i].edges}
  IN IF badlen THEN Err("LenIsEpisodeCount", <<>>, n, c.len)
     ELSE IF badkeys # {} THEN Err("StackKeepsKeys", <<CHOOSE i \in badkeys : TRUE>>, DOMAIN c.eps[1].verts, "different keys")
     ELSE IF bad # {} THEN LET i == CHOOSE i \in bad : TRUE IN Err("IndexOfStackIsOriginal", <<i - 1>>, c.eps[i], Strip(c.indexed[i]))
     ELSE IF badpad # {} THEN Err("PaddingIsMinusOneSuffix", <<CHOOSE i \in badpad : TRUE>>, "-1 rows only as a suffix", "violated")
     ELSE NoErr

(* ---- filter ------------------------------------------------------------- *)
FilterErr(c) ==
  LET sel == SeqToSet(c.sel)
      expV == {n \in DOMAIN c.g.verts : n \in sel}
      expE == {x \in DOMAIN c.g.edges : x \in DOMAIN c.ends /\ c.ends[x][1] \in sel /\ c.ends[x][2] \in sel}   \* c.ends: the connections of the nodes handed to filter()
  IN IF DOMAIN c.out.verts # expV THEN Err("FilterKeepsSelectedNodes", <<c.flag>>, expV, DOMAIN c.out.verts)
     ELSE IF DOMAIN c.out.edges # expE THEN Err("FilterKeepsConnectionsAmongSelected", <<c.flag>>, expE, DOMAIN c.out.edges)
     ELSE IF \E n \in expV : c.out.verts[n] # c.g.verts[n] THEN Err("FilterLeavesVerticesUnchanged", <<c.flag>>, "same rows", "changed")
     ELSE IF \E x \in expE : c.out.edges[x] # c.g.edges[x] THEN Err("FilterLeavesEdgesUnchanged", <<c.flag>>, "same rows", "changed")
     ELSE NoErr

(* ---- to networkx -------------------------------------------------------- *)
VName(n, s) == n \o "_" \o ToString(s)
NxErr(c) ==
  LET g == Strip(c.g)
      expNodes == UNION {{[name |-> VName(n, g.verts[n][i].seq), kind |-> n, seq |-> g.verts[n][i].seq, start |-> g.verts[n][i].start, end |-> g.verts[n][i].end]
                          : i \in 1..Len(g.verts[n])} : n \in DOMAIN g.verts}
      stateful == UNION {{<<VName(n, g.verts[n][i].seq - 1), VName(n, g.verts[n][i].seq)>> : i \in {i \in 1..Len(g.verts[n]) : g.verts[n][i].seq > 0}} : n \in DOMAIN g.verts}
      msgs == UNION {{<<VName(c.ends[x][1], g.edges[x][i].out), VName(c.ends[x][2], g.edges[x][i].in)>>
                       : i \in {i \in 1..Len(g.edges[x]) : g.edges[x][i].in >= 0}} : x \in DOMAIN g.edges}
      gotNodes == SeqToSet(c.nx.nodes)
      gotEdges == {<<c.nx.edges[i][1], c.nx.edges[i][2]>> : i \in 1..Len(c.nx.edges)}
  IN IF gotNodes # expNodes THEN Err("NxVertices", <<>>, expNodes \ gotNodes, gotNodes \ expNodes)
     ELSE IF gotEdges # (stateful \cup msgs) THEN Err("NxEdges", <<>>, (stateful \cup msgs) \ gotEdges, gotEdges \ (stateful \cup msgs))
     ELSE NoErr

(* ---- record -> graph, record filter ------------------------------------- *)
ToGraphErr(c) ==
  IF DOMAIN c.g.verts # DOMAIN c.rec.steps THEN Err("ToGraphNodes", <<>>, DOMAIN c.rec.steps, DOMAIN c.g.verts)
  ELSE IF DOMAIN c.g.edges # DOMAIN c.rec.msgs THEN Err("ToGraphConnections", <<>>, DOMAIN c.rec.msgs, DOMAIN c.g.edges)
  ELSE IF \E n \in DOMAIN c.g.verts : c.g.verts[n] # c.rec.steps[n] THEN Err("ToGraphVertices", <<>>, c.rec.steps, c.g.verts)
  ELSE IF \E x \in DOMAIN c.g.edges : c.g.edges[x] # c.rec.msgs[x] THEN Err("ToGraphEdges", <<>>, c.rec.msgs, c.g.edges)
  ELSE NoErr

RecFilterErr(c) ==
  LET sel == SeqToSet(c.sel)
      expN == {n \in DOMAIN c.rec.steps : n \in sel}
      expX == {x \in DOMAIN c.rec.msgs : x \in DOMAIN c.ends /\ c.ends[x][2] \in sel /\ c.ends[x][1] \in sel}
  IN IF DOMAIN c.out.steps # expN THEN Err("RecordFilterKeepsSelectedNodes", <<c.flag>>, expN, DOMAIN c.out.steps)
     ELSE IF DOMAIN c.out.msgs # expX THEN Err("RecordFilterKeepsConnections", <<c.flag>>, expX, DOMAIN c.out.msgs)
     ELSE IF \E n \in expN : c.out.steps[n] # c.rec.steps[n] THEN Err("RecordFilterLeavesStepsUnchanged", <<c.flag>>, "same", "changed")
     ELSE IF \E x \in expX : c.out.msgs[x] # c.rec.msgs[x] THEN Err("RecordFilterLeavesMessagesUnchanged", <<c.flag>>, "same", "changed")
     ELSE NoErr

CaseErr(c) == IF c.op = "stack_index" THEN StackIndexErr(c)
              ELSE IF c.op = "filter" THEN FilterErr(c)
              ELSE IF c.op = "to_nx" THEN NxErr(c)
              ELSE IF c.op = "to_graph" THEN ToGraphErr(c)
              ELSE IF c.op = "record_filter" THEN RecFilterErr(c)
              ELSE Err("UnknownOp", <<>>, "", c.op)

Verdict(e) ==
  PrintT("VERDICT|" \o ToString(cid) \o "|" \o C.id \o "|" \o (IF e = NoErr THEN "accept" ELSE "reject") \o "|"
         \o (IF e = NoErr THEN "-" ELSE e.clause) \o "|" \o ToString(e))

AInit == cid = 1 /\ fin = FALSE
ANext == /\ ~fin
         /\ Verdict(CaseErr(C))
         /\ IF cid < Len(Cases) THEN cid' = cid + 1 /\ fin' = FALSE ELSE fin' = TRUE /\ cid' = cid
ASpec == AInit /\ [][ANext]_vars
=============================================================================
