SPECIFICATION GSpec
CHECK_DEADLOCK FALSE
