------------------------------- MODULE RexRun -------------------------------
(***************************************************************************)
(* The compiled runtime as an abstract machine, and trace validation of     *)
(* real executions (rex.graph.Graph.run/reset/step/rollout, jitted or not)  *)
(* against it.                                                              *)
(*                                                                         *)
(* State of the machine (= the abstract content of a rex GraphState):       *)
(*   step        - partition counter (GraphState.step)                      *)
(*   hcur[k]     - probe hash (state) of node kind k                        *)
(*   nexec[k]    - number of executed steps of k (= rng chain position)     *)
(*   ring[k]     - output ring buffer of k: slot -> payload [eps,dseq,h]    *)
(*   supss       - the supervisor's prepared step state (seq, ts, windows)  *)
(*   exec[k]     - executed steps of k: seq -> [start, h, h_out, rngi]      *)
(* API layer (rex/graph.py): every public call is a composition of the two  *)
(* micro-operations                                                         *)
(*   RU  run_until_supervisor: clip step; run the generations of partition  *)
(*       `step` (slots of one generation read the graph state as of the     *)
(*       generation's start; outputs are written at seq mod size at its     *)
(*       end); prepare the supervisor's inputs; step + 1                    *)
(*   RS  run_supervisor: clip step; skipped if step = 0; otherwise run (or  *)
(*       override: RSo) the supervisor's step of partition step-1 and write *)
(*       its output at seq mod size                                         *)
(*   run = RU;RS   reset = RU   step = RS;RU   rollout(n) = (RU;RS)^n       *)
(*                                                                         *)
(* One trace = the ops of a call history + the schedule table (projected    *)
(* Graph.timings) + the host-side probe log + (optionally) the record in    *)
(* aux['record'] and the probe log of the threaded runtime for the same     *)
(* episode (C01).  Clauses: C06 (ExactlyOnce), C08 (ReadsRing,              *)
(* ScheduledPayload), C09 (step/seq/ts as the API prescribes), C13          *)
(* (Record..), C01 (MatchesAsync..).                                          *)
(***************************************************************************)
EXTENDS Integers, Sequences, FiniteSets, TLC, Json, IOUtils, TLCExt

Traces == JsonDeserialize(IOEnv.TRACE_FILE)
MOD == 100003
NA == -999999

VARIABLES tid, opi, step, hcur, nexec, ring, supss, exec, lp, err, fin
vars == <<tid, opi, step, hcur, nexec, ring, supss, exec, lp, err, fin>>

T == Traces[tid]
NoErr == <<>>
Err(clause, at, exp, got) == [clause |-> clause, at |-> at, exp |-> exp, got |-> got]
FirstErr(cs) == LET bad == {i \in 1..Len(cs) : ~cs[i][1]} IN
                IF bad = {} THEN NoErr ELSE cs[CHOOSE i \in bad : \A j \in bad : i <= j][2]
Max2(a, b) == IF a >= b THEN a ELSE b
RECURSIVE SumSeq(_)
SumSeq(s) == IF s = <<>> THEN 0 ELSE Head(s) + SumSeq(Tail(s))

Kinds(t) == DOMAIN t.kinds
Clip(t, s) == IF s < 0 THEN 0 ELSE IF s > t.P - 1 THEN t.P - 1 ELSE s
DefaultPayload == [eps |-> -1, dseq |-> -1, h |-> 0]

(* probe data layer - same formulas as RexLaw / harness/probes.py *)
PayloadHash(nid, e) == (nid * 7 + (e.eps + 1) * 13 + (e.dseq + 1) * 17 + e.h + 3 * (e.h % 97) + 5 * (e.dseq + 1)) % MOD   \* incl. the payload's two-element leaf [h mod 97, seq + 1]
EntryTerm(nid, e) == (PayloadHash(nid, e) + Max2(e.seq, -1) + 1) % MOD
NextH(t, k, seq, h, wins) ==
  LET terms(a) == (SumSeq([i \in 1..Len(wins[a]) |-> EntryTerm(t.kinds[a].nid, wins[a][i])])) % MOD
      RECURSIVE Acc(_)
      Acc(S) == IF S = {} THEN 0 ELSE LET a == CHOOSE y \in S : TRUE IN (terms(a) + Acc(S \ {a})) % MOD
  IN (((31 * h) % MOD) + (t.kinds[k].p % MOD) + Acc(DOMAIN wins) + ((seq + 1) % MOD)) % MOD

(* what a reader of producer a's ring buffer finds for a window whose schedule names sequence numbers w[j].seq *)
ReadWin(t, rg, a, w) ==
  [j \in 1..Len(w) |->
     LET pl == rg[a][(w[j].seq % t.buf[a]) + 1] IN
     [seq |-> IF w[j].seq < 0 THEN -1 ELSE w[j].seq, sent |-> w[j].sent, recv |-> w[j].recv,
      nid |-> t.kinds[a].nid, eps |-> pl.eps, dseq |-> pl.dseq, h |-> pl.h]]

(* C08: the payload read is the one the producer emitted at that sequence number, the default output for negative ones *)
ScheduledOk(t, ex, a, rw) ==
  \A j \in 1..Len(rw) :
     IF rw[j].seq < 0 THEN rw[j].eps = -1 /\ rw[j].dseq = -1 /\ rw[j].h = 0
     ELSE (rw[j].seq \in DOMAIN ex[a]) =>
             LET x == ex[a][rw[j].seq] IN
             IF "pl" \in DOMAIN x THEN rw[j].dseq = x.pl.dseq /\ rw[j].h = x.pl.h /\ rw[j].eps = x.pl.eps     \* output handed over by the caller (RSx)
             ELSE rw[j].dseq = rw[j].seq /\ rw[j].h = x.h_out /\ rw[j].eps = t.eps

(* C10: a connection with a trainable zero-order-hold delay.  The schedule hands over a window extended by Ext entries computed for the   *)
(* minimal delay; TrainableDist.apply_delay re-stamps the receive times with the current delay d, locates the first entry that has not  *)
(* arrived by the step's start and takes the W entries before it (lax.dynamic_slice: a negative start counts from the end, then is      *)
(* clamped into range).  t.train[k][a] = [d, W] when kind k's input from a is trainable.                                                *)
ZohApply(ext, d, ts, W) ==
  LET n == Len(ext)
      recv(j) == IF ext[j].seq < 0 THEN ext[j].recv ELSE ext[j].sent + d
      later == {j \in 1..n : recv(j) > ts}
      idxmax == IF later = {} THEN n + 1 ELSE CHOOSE j \in later : \A i \in later : j <= i
      idxmin == idxmax - W
      s0 == IF idxmin < 1 THEN idxmin + n ELSE idxmin
      start == IF s0 < 1 THEN 1 ELSE IF s0 > n - W + 1 THEN n - W + 1 ELSE s0
  IN [j \in 1..W |-> [ext[start + j - 1] EXCEPT !.recv = recv(start + j - 1)]]
IsTrain(t, k, a) == "train" \in DOMAIN t /\ k \in DOMAIN t.train /\ a \in DOMAIN t.train[k]
Seen(t, k, a, rw, ts) == IF IsTrain(t, k, a) /\ Len(rw) > t.train[k][a].W THEN ZohApply(rw, t.train[k][a].d, ts, t.train[k][a].W) ELSE rw

NormLogWin(w) == [j \in 1..Len(w) |-> IF w[j].seq < 0 THEN [w[j] EXCEPT !.seq = -1] ELSE w[j]]

(* ---- one slot against one log entry ------------------------------------- *)
(* st: machine state record [hcur, nexec, ring, exec]; returns the first failing clause *)
SlotErr(t, st, s, e, at) ==
  LET k == s.kind
      ins == DOMAIN s.wins
      rw == [a \in ins |-> Seen(t, k, a, ReadWin(t, st.ring, a, s.wins[a]), s.start)]
      lw == [a \in ins |-> NormLogWin(e.wins[a])]
      hn == NextH(t, k, s.seq, st.hcur[k], rw)
      base == <<
        <<e.seq = s.seq, Err("ExactlyOnce_Seq", at, s.seq, e.seq)>>,
        <<e.eps = t.eps, Err("StepEps", at, t.eps, e.eps)>>,
        <<e.ts = s.start, Err("StepTs", at, s.start, e.ts)>>,
        <<e.p = t.kinds[k].p, Err("StepParams", at, t.kinds[k].p, e.p)>>,
        <<e.h = st.hcur[k], Err("StepState", at, st.hcur[k], e.h)>>,
        <<e.rngi = NA \/ e.rngi = st.nexec[k] + t.kinds[k].rng0, Err("StepRng", at, st.nexec[k] + t.kinds[k].rng0, e.rngi)>> >>
      post == <<
        <<\A a \in ins : [j \in 1..Len(lw[a]) |-> [seq |-> lw[a][j].seq, sent |-> lw[a][j].sent, recv |-> lw[a][j].recv]]
                         = [j \in 1..Len(rw[a]) |-> [seq |-> rw[a][j].seq, sent |-> rw[a][j].sent, recv |-> rw[a][j].recv]],
          Err("WindowAsScheduled", at, rw, lw)>>,
        <<\A a \in ins : lw[a] = rw[a], Err("ReadsRing", at, rw, lw)>>,
        <<\A a \in ins : ScheduledOk(t, st.exec, a, rw[a]), Err("ScheduledPayload", at, "payload of the scheduled sequence number", rw)>>,
        <<e.h_out = hn, Err("StepOutput", at, hn, e.h_out)>> >>
      refc == IF "ref" \in DOMAIN t /\ k \in DOMAIN t.ref /\ s.seq < Len(t.ref[k])
              THEN LET r == t.ref[k][s.seq + 1] IN <<
                <<r.ts = e.ts, Err("MatchesAsync_Ts", at, r.ts, e.ts)>>,
                <<r.h = e.h, Err("MatchesAsync_State", at, r.h, e.h)>>,
                <<r.rngi = e.rngi, Err("MatchesAsync_Rng", at, r.rngi, e.rngi)>>,
                <<\A a \in ins : NormLogWin(r.wins[a]) = lw[a], Err("MatchesAsync_Window", at, r.wins, lw)>>,
                <<r.h_out = e.h_out, Err("MatchesAsync_Output", at, r.h_out, e.h_out)>> >>
              ELSE <<>>
  \* C10 pairs: the reference (the system with the static delay) is consulted before the implementation-shaped window clauses, so that a
  \* run that agrees with the reference but not with ZohApply is told apart (model drift) from one that violates the property
  IN FirstErr(IF "ref_first" \in DOMAIN t THEN base \o refc \o post ELSE base \o post \o refc)

(* ---- one generation: its scheduled slots against the next |slots| log entries ---------------- *)
(* ms: [st |-> machine state, lp |-> log pointer, err |-> error] *)
SkipKinds(t) == IF "skip" \in DOMAIN t THEN {t.skip[i] : i \in 1..Len(t.skip)} ELSE {}   \* Graph(skip=[...]): these kinds never execute
RunGenOn(t, ms, g) ==
  IF ms.err # NoErr THEN ms ELSE
  LET slots == SelectSeq(g.slots, LAMBDA sl : sl.kind \notin SkipKinds(t))
      n == Len(slots)
      log == t.log
      avail == Len(log) - ms.lp
  IN IF n = 0 THEN ms
     ELSE IF avail < n THEN [ms EXCEPT !.err = Err("ExactlyOnce_MissingExecution", <<g.p, slots[avail + 1].kind, slots[avail + 1].seq>>, n, avail)]
     ELSE
     LET ents == [i \in 1..n |-> log[ms.lp + i]]
         \* match by kind (kinds within one generation are distinct, RexSchedule)
         entOf(i) == LET c == {j \in 1..n : ents[j].kind = slots[i].kind} IN IF c = {} THEN 0 ELSE CHOOSE j \in c : TRUE
         nomatch == {i \in 1..n : entOf(i) = 0}
         errs == [i \in 1..n |-> IF entOf(i) = 0 THEN NoErr ELSE SlotErr(t, ms.st, slots[i], ents[entOf(i)], <<g.p, slots[i].kind, slots[i].seq>>)]
         bad == {i \in 1..n : errs[i] # NoErr}
     IN IF nomatch # {} THEN [ms EXCEPT !.err = Err("ExactlyOnce_WrongStep", <<g.p, slots[CHOOSE i \in nomatch : TRUE].kind>>,
                                                    [i \in 1..n |-> <<slots[i].kind, slots[i].seq>>], [i \in 1..n |-> <<ents[i].kind, ents[i].seq>>])]
        ELSE IF bad # {} THEN [ms EXCEPT !.err = errs[CHOOSE i \in bad : \A j \in bad : i <= j]]
        ELSE LET kindsHere == {slots[i].kind : i \in 1..n}
                 sl(k) == slots[CHOOSE i \in 1..n : slots[i].kind = k]
                 en(k) == ents[entOf(CHOOSE i \in 1..n : slots[i].kind = k)]
                 st == ms.st
                 st2 == [hcur |-> [k \in DOMAIN st.hcur |-> IF k \in kindsHere THEN en(k).h_out ELSE st.hcur[k]],
                         nexec |-> [k \in DOMAIN st.nexec |-> IF k \in kindsHere THEN st.nexec[k] + 1 ELSE st.nexec[k]],
                         ring |-> [k \in DOMAIN st.ring |-> IF k \in kindsHere
                                     THEN [st.ring[k] EXCEPT ![(sl(k).seq % t.buf[k]) + 1] = [eps |-> t.eps, dseq |-> sl(k).seq, h |-> en(k).h_out]]
                                     ELSE st.ring[k]],
                         exec |-> [k \in DOMAIN st.exec |-> IF k \in kindsHere
                                     THEN (sl(k).seq :> [start |-> sl(k).start, h |-> en(k).h, h_out |-> en(k).h_out, rngi |-> en(k).rngi]) @@ st.exec[k]
                                     ELSE st.exec[k]]]
             IN [st |-> st2, lp |-> ms.lp + n, err |-> NoErr]

RECURSIVE RunGens(_, _, _)
RunGens(t, ms, gs) == IF gs = <<>> THEN ms ELSE RunGens(t, RunGenOn(t, ms, Head(gs)), Tail(gs))

GensOf(t, p) == SelectSeq(t.gens, LAMBDA g : g.p = p /\ ~g.last)
SupSlot(t, p) == LET c == SelectSeq(t.gens, LAMBDA g : g.p = p /\ g.last) IN c[1].slots[1]
\* inside the compiled horizon every partition is closed by an (un-masked) supervisor step; the runtime executes the supervisor
\* without looking at its mask, so a masked supervisor slot inside the horizon is an execution of a masked tick
SupMasked(t, p) == LET c == SelectSeq(t.gens, LAMBDA g : g.p = p /\ g.last) IN c = <<>> \/ c[1].slots = <<>>
MaskedErr(p) == Err("ExactlyOnce_MaskedSupervisorSlot", <<p, T.sup>>, "supervisor step p closes partition p", "masked slot inside the horizon")

---------------------------------------------------------------------------
MS == [st |-> [hcur |-> hcur, nexec |-> nexec, ring |-> ring, exec |-> exec], lp |-> lp, err |-> NoErr]

(* RU: run_until_supervisor *)
DoRU ==
  LET s == Clip(T, step)
      ms == RunGens(T, MS, GensOf(T, s))
      sup == SupSlot(T, s)
  IN IF SupMasked(T, s)
     THEN err' = MaskedErr(s) /\ UNCHANGED <<tid, opi, step, hcur, nexec, ring, supss, exec, lp, fin>>
     ELSE IF ms.err # NoErr
     THEN err' = ms.err /\ UNCHANGED <<tid, opi, step, hcur, nexec, ring, supss, exec, lp, fin>>
     ELSE /\ hcur' = ms.st.hcur /\ nexec' = ms.st.nexec /\ ring' = ms.st.ring /\ exec' = ms.st.exec /\ lp' = ms.lp
          /\ supss' = [seq |-> sup.seq, start |-> sup.start, wins |-> [a \in DOMAIN sup.wins |-> Seen(T, T.sup, a, ReadWin(T, ms.st.ring, a, sup.wins[a]), sup.start)]]
          /\ step' = s + 1
          /\ opi' = opi + 1
          /\ UNCHANGED <<tid, err, fin>>

(* RS / RSo: run_supervisor, executed by rex (one probe log entry) or overridden by the caller with the supervisor's own result *)
(* RSx: the caller overrides the supervisor's step with an ARBITRARY step state and output (e.g. a stateless agent that keeps handing back the  *)
(* step state it got from reset()): the supervisor's state and rng become the given ones, the given output is published at the sequence      *)
(* number the SCHEDULE names for this step; sequence number, time and inputs of the next step come from the schedule again.                 *)
(* T.opx[ToString(opi)] = [h |-> given state, rngi |-> chain index of the given rng, pl |-> [eps, dseq, h] given output]                       *)
OpX == T.opx[ToString(opi)]
DoRSx ==
  LET s == Clip(T, step)
      k == T.sup
  IN IF s = 0 THEN step' = s /\ opi' = opi + 1 /\ UNCHANGED <<tid, hcur, nexec, ring, supss, exec, lp, err, fin>>
     ELSE LET tm == SupSlot(T, s - 1) IN
          /\ hcur' = [hcur EXCEPT ![k] = OpX.h]
          /\ nexec' = [nexec EXCEPT ![k] = OpX.rngi - T.kinds[k].rng0]
          /\ ring' = [ring EXCEPT ![k] = [@ EXCEPT ![(tm.seq % T.buf[k]) + 1] = OpX.pl]]
          /\ exec' = [exec EXCEPT ![k] = (tm.seq :> [start |-> supss.start, h |-> hcur[k], h_out |-> OpX.pl.h, rngi |-> NA, pl |-> OpX.pl]) @@ @]
          /\ step' = s /\ opi' = opi + 1
          /\ supss' = [supss EXCEPT !.seq = @ + 1]
          /\ UNCHANGED <<tid, lp, err, fin>>

DoRS(override) ==
  LET s == Clip(T, step)
      k == T.sup
  IN IF s = 0 THEN step' = s /\ opi' = opi + 1 /\ UNCHANGED <<tid, hcur, nexec, ring, supss, exec, lp, err, fin>>
     ELSE
     LET tm == SupSlot(T, s - 1)
         hn == NextH(T, k, supss.seq, hcur[k], supss.wins)
         e == IF override \/ lp >= Len(T.log) THEN <<>> ELSE T.log[lp + 1]
         at == <<s - 1, k, tm.seq>>
         st == [hcur |-> hcur, nexec |-> nexec, ring |-> ring, exec |-> exec]
         cs == IF override THEN <<>>
               ELSE IF lp >= Len(T.log) THEN << <<FALSE, Err("ExactlyOnce_MissingExecution", at, "supervisor step", "log exhausted")>> >>
               ELSE <<
                 <<e.kind = k, Err("ExactlyOnce_WrongStep", at, k, e.kind)>>,
                 <<e.seq = supss.seq, Err("ExactlyOnce_Seq", at, supss.seq, e.seq)>>,
                 <<supss.seq = tm.seq, Err("SupervisorStepOfPartition", at, tm.seq, supss.seq)>>,
                 <<e.eps = T.eps, Err("StepEps", at, T.eps, e.eps)>>,
                 <<e.ts = supss.start, Err("StepTs", at, supss.start, e.ts)>>,
                 <<e.h = hcur[k], Err("StepState", at, hcur[k], e.h)>>,
                 <<e.rngi = NA \/ e.rngi = nexec[k] + T.kinds[k].rng0, Err("StepRng", at, nexec[k] + T.kinds[k].rng0, e.rngi)>> >>
         cs2 == IF override \/ lp >= Len(T.log) \/ e.kind # k THEN <<>> ELSE <<     \* (a log entry of another kind is already ExactlyOnce_WrongStep)
                 <<[a \in DOMAIN supss.wins |-> NormLogWin(e.wins[a])] = supss.wins, Err("ReadsRing", at, supss.wins, e.wins)>>,
                 <<\A a \in DOMAIN supss.wins : ScheduledOk(T, exec, a, supss.wins[a]), Err("ScheduledPayload", at, "payload of the scheduled sequence number", supss.wins)>>,
                 <<e.h_out = hn, Err("StepOutput", at, hn, e.h_out)>> >>
         refc == IF ~override /\ lp < Len(T.log) /\ e.kind = k /\ "ref" \in DOMAIN T /\ k \in DOMAIN T.ref /\ supss.seq < Len(T.ref[k])
                 THEN LET r == T.ref[k][supss.seq + 1] IN <<
                    <<r.ts = e.ts, Err("MatchesAsync_Ts", at, r.ts, e.ts)>>,
                    <<r.h = e.h, Err("MatchesAsync_State", at, r.h, e.h)>>,
                    <<r.rngi = e.rngi, Err("MatchesAsync_Rng", at, r.rngi, e.rngi)>>,
                    <<[a \in DOMAIN supss.wins |-> NormLogWin(r.wins[a])] = [a \in DOMAIN supss.wins |-> NormLogWin(e.wins[a])], Err("MatchesAsync_Window", at, r.wins, e.wins)>>,
                    <<r.h_out = e.h_out, Err("MatchesAsync_Output", at, r.h_out, e.h_out)>> >>
                 ELSE <<>>
         er == FirstErr(IF "ref_first" \in DOMAIN T THEN cs \o refc \o cs2 ELSE cs \o cs2 \o refc)
     IN IF er # NoErr
        THEN err' = er /\ UNCHANGED <<tid, opi, step, hcur, nexec, ring, supss, exec, lp, fin>>
        ELSE /\ hcur' = [hcur EXCEPT ![k] = hn]
             /\ nexec' = [nexec EXCEPT ![k] = @ + 1]
             /\ ring' = [ring EXCEPT ![k] = [@ EXCEPT ![(tm.seq % T.buf[k]) + 1] = [eps |-> T.eps, dseq |-> supss.seq, h |-> hn]]]
             /\ exec' = [exec EXCEPT ![k] = (supss.seq :> [start |-> supss.start, h |-> hcur[k], h_out |-> hn, rngi |-> nexec[k] + T.kinds[k].rng0]) @@ @]
             /\ lp' = IF override THEN lp ELSE lp + 1
             /\ step' = s
             /\ opi' = opi + 1
             /\ supss' = [supss EXCEPT !.seq = @ + 1]     \* the supervisor's step state carries seq + 1 after its step
             /\ UNCHANGED <<tid, err, fin>>

(* C08, judged on the probe log alone (independent of the machine above, so that it is still decided when the run is rejected by a clause  *)
(* of another property, e.g. a permuted execution order): every window entry a step was handed carries the payload the producer emitted at   *)
(* the sequence number the entry names, the default output for negative ones.                                                                *)
PayloadErr(t) ==
  LET L == t.log
      Emis(a, q) == {L[i].h_out : i \in {i \in 1..Len(L) : L[i].kind = a /\ L[i].seq = q}}
      BadAt(i) == {<<a, j>> \in UNION {{<<a, j>> : j \in 1..Len(L[i].wins[a])} : a \in DOMAIN L[i].wins} :
                     LET w == L[i].wins[a][j] IN
                     IF w.seq < 0 THEN ~(w.eps = -1 /\ w.dseq = -1 /\ w.h = 0)
                     ELSE Emis(a, w.seq) # {} /\ ~(w.h \in Emis(a, w.seq) /\ w.dseq = w.seq /\ w.eps = t.eps)}
      bad == {i \in 1..Len(L) : BadAt(i) # {}}
  IN IF bad = {} THEN NoErr
     ELSE LET i == CHOOSE x \in bad : \A y \in bad : x <= y
              aj == CHOOSE x \in BadAt(i) : TRUE
          IN Err("PayloadOfNamedSeq", <<L[i].kind, L[i].seq, aj[1], aj[2]>>, Emis(aj[1], L[i].wins[aj[1]][aj[2]].seq), L[i].wins[aj[1]][aj[2]])

(* ---- completion: the record in aux['record'] (C13) and the final abstract state (C09) ---------- *)
(* the recorded windows of step (k, i) against the probe log: some log entry of that step saw exactly these windows (an overridden supervisor step
   has no log entry and is not judged here) *)
RecWinsOk(k, i, w) ==
  LET es == {j \in 1..Len(T.log) : T.log[j].kind = k /\ T.log[j].seq = i}
  IN es = {} \/ \E j \in es : \A a \in DOMAIN w : a \in DOMAIN T.log[j].wins /\ NormLogWin(w[a]) = NormLogWin(T.log[j].wins[a])
RecErr ==
  IF ~("rec" \in DOMAIN T) THEN NoErr ELSE
  LET bad == {kr \in UNION {{<<k, i>> : i \in 1..Len(T.rec[k])} : k \in DOMAIN T.rec} :
                LET k == kr[1]  i == kr[2] - 1  row == T.rec[k][kr[2]] IN
                IF i \in DOMAIN exec[k]
                THEN ~(/\ row.seq = i /\ row.eps = T.eps /\ row.start = exec[k][i].start
                       /\ (row.h = NA \/ row.h = exec[k][i].h)
                       /\ (row.out_h = NA \/ row.out_h = exec[k][i].h_out)
                       /\ (row.rngi = NA \/ exec[k][i].rngi = NA \/ row.rngi = exec[k][i].rngi)
                       \* recorded input windows = the windows the step function was CALLED with (what the probe saw), not what it handed back
                       /\ (~("wins" \in DOMAIN row) \/ RecWinsOk(k, i, row.wins)))
                ELSE IF k = T.sup /\ i = supss.seq /\ row.seq = i
                     \* the supervisor's step that run_until_supervisor has PREPARED (its step state was handed to the caller of reset()/step()) but
                     \* that has not been executed: rex has already written what the step will use; what it produces is still unwritten
                     THEN ~(row.eps = T.eps /\ row.start = supss.start /\ (row.h = NA \/ row.h = hcur[k]) /\ (row.out_h = NA \/ row.out_h = -1))
                ELSE ~(row.seq = -1)}
      \* every executed step must have a row at all (a record sized too small silently drops the writes of the last steps)
      missing == UNION {{<<k, i>> : i \in {i \in DOMAIN exec[k] : i + 1 > Len(T.rec[k])}} : k \in DOMAIN T.rec}
  IN IF missing # {} THEN LET m == CHOOSE x \in missing : TRUE IN Err("RecordRowMissing", m, "a row for every executed step", Len(T.rec[m[1]]))
     ELSE IF bad = {} THEN NoErr
     ELSE LET kr == CHOOSE x \in bad : TRUE IN
          Err(IF (kr[2] - 1) \in DOMAIN exec[kr[1]] THEN "RecordRow" ELSE "RecordNeverExecutedRow", kr,
              IF (kr[2] - 1) \in DOMAIN exec[kr[1]] THEN exec[kr[1]][kr[2] - 1] ELSE "seq = -1", T.rec[kr[1]][kr[2]])

FinalErr ==
  IF err # NoErr THEN err
  ELSE IF lp < Len(T.log) THEN Err("ExactlyOnce_ExtraExecution", <<T.log[lp + 1].kind, T.log[lp + 1].seq>>, lp, Len(T.log))
  ELSE IF "final" \in DOMAIN T /\ T.final.step # step THEN Err("FinalStepCounter", <<>>, step, T.final.step)
  ELSE IF "final" \in DOMAIN T /\ \E k \in DOMAIN T.final.h : T.final.h[k] # hcur[k]
       THEN Err("FinalNodeState", <<>>, hcur, T.final.h)
  ELSE IF "final" \in DOMAIN T /\ \E k \in DOMAIN T.final.seq : T.final.seq[k] # NA /\ nexec[k] > 0 /\
             T.final.seq[k] # (IF k = T.sup THEN supss.seq ELSE (CHOOSE m \in DOMAIN exec[k] : \A m2 \in DOMAIN exec[k] : m >= m2) + 1)
       THEN Err("FinalSeq", <<>>, exec, T.final.seq)
  ELSE IF RecErr # NoErr THEN RecErr
  ELSE PayloadErr(T)

---------------------------------------------------------------------------
InitFor(i) ==
  LET t == Traces[i] IN
  /\ tid = i /\ opi = 1 /\ step = t.step0
  /\ hcur = [k \in Kinds(t) |-> t.kinds[k].h0]
  /\ nexec = [k \in Kinds(t) |-> 0]
  /\ ring = [k \in Kinds(t) |-> [j \in 1..t.buf[k] |-> DefaultPayload]]
  /\ supss = [seq |-> 0, start |-> 0, wins |-> <<>>]
  /\ exec = [k \in Kinds(t) |-> <<>>]
  /\ lp = 0 /\ err = NoErr /\ fin = FALSE

RInit == InitFor(1)

Verdict(e) ==
  PrintT("VERDICT|" \o ToString(tid) \o "|" \o T.id \o "|" \o (IF e = NoErr THEN "accept" ELSE "reject") \o "|"
         \o (IF e = NoErr THEN "-" ELSE e.clause) \o "|" \o ToString(e)
         \o (IF e # NoErr /\ e.clause # "PayloadOfNamedSeq" /\ PayloadErr(T) # NoErr THEN " ALSO " \o ToString(PayloadErr(T)) ELSE ""))

DoOp ==
  /\ err = NoErr /\ opi <= Len(T.ops) /\ ~fin
  /\ LET op == T.ops[opi] IN
     IF op = "RU" THEN DoRU ELSE IF op = "RS" THEN DoRS(FALSE) ELSE IF op = "RSx" THEN DoRSx ELSE DoRS(TRUE)

Finish ==
  /\ (err # NoErr \/ opi > Len(T.ops)) /\ ~fin
  /\ Verdict(FinalErr)
  /\ IF tid < Len(Traces)
     THEN LET t == Traces[tid + 1] IN
          /\ tid' = tid + 1 /\ opi' = 1 /\ step' = t.step0
          /\ hcur' = [k \in Kinds(t) |-> t.kinds[k].h0]
          /\ nexec' = [k \in Kinds(t) |-> 0]
          /\ ring' = [k \in Kinds(t) |-> [j \in 1..t.buf[k] |-> DefaultPayload]]
          /\ supss' = [seq |-> 0, start |-> 0, wins |-> <<>>]
          /\ exec' = [k \in Kinds(t) |-> <<>>]
          /\ lp' = 0 /\ err' = NoErr /\ fin' = FALSE
     ELSE fin' = TRUE /\ UNCHANGED <<tid, opi, step, hcur, nexec, ring, supss, exec, lp, err>>

RNext == DoOp \/ Finish
RSpec == RInit /\ [][RNext]_vars
=============================================================================
