------------------------- MODULE MC_RexLawConfluence -------------------------
(***************************************************************************)
(* Order independence of the law (the design-level core of C02): with the   *)
(* delay streams fixed (cfg.cstream / cfg.mstream), EVERY interleaving of    *)
(* TimeStep / Select / ExecStep is explored and all terminal states must     *)
(* carry the same history, windows and hashes.  Run with -workers 1 (uses a  *)
(* TLC register to remember the first terminal state of each configuration). *)
(***************************************************************************)
EXTENDS RexLaw, Json, IOUtils

MCCfgs == JsonDeserialize(IOEnv.MC_CFG_FILE)
VARIABLES ci
cvars == <<lawvars, ci>>

CInit == \E i \in 1..Len(MCCfgs) : LawInit(MCCfgs[i]) /\ ci = i

TEnabled(n) == kt[n] < cfg.K /\ TimeEnabled(n)
SEnabled(x) == SelTimed(x) /\ HasFuture(x)

DoTime(n) ==
  LET EmitAll(y) == TRUE
      RecvMC(y, end) == Max2(end + cfg.mstream[y][kt[n] + 1], prevRecv[y])
  IN TEnabled(n) /\ TimeStep(n, cfg.cstream[n][kt[n] + 1], EmitAll, RecvMC)

CNext == /\ UNCHANGED ci
         /\ \/ \E n \in Nodes : DoTime(n)
            \/ \E x \in Conns : SEnabled(x) /\ Select(x)
            \/ \E n \in Nodes : ExecStep(n)

CSpec == CInit /\ [][CNext]_cvars

Terminal == /\ \A n \in Nodes : ~TEnabled(n) /\ ~ExecEnabled(n)
            /\ \A x \in Conns : ~SEnabled(x)

Final == [hist |-> hist, win |-> win, hcur |-> hcur, outh |-> outh, ke |-> ke, kt |-> kt, q |-> q, grp |-> grp]

TerminalsAgree ==
  Terminal => IF TLCGet(ci) = 0 THEN TLCSet(ci, Final) ELSE TLCGet(ci) = Final

RegInit == \A i \in 1..Len(MCCfgs) : TLCSet(i, 0)
ASSUME RegInit
=============================================================================
