SPECIFICATION ASpec
CHECK_DEADLOCK FALSE
