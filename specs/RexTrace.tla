------------------------------- MODULE RexTrace -------------------------------
(***************************************************************************)
(* Trace validation of OBSERVABLE executions of the threaded runtime        *)
(* against RexLaw.                                                          *)
(*                                                                         *)
(* One trace = one episode: the configuration, the episode record          *)
(* (AsyncGraph.get_record()), the host-side log of the probe nodes, and     *)
(* the supervisor step states returned by reset()/step().  The trace is a   *)
(* table keyed by (node, tick) / (connection, message), not a sequence:     *)
(* the law is an order-independent network, so the trace specification      *)
(* drives RexLaw's own actions in one canonical order and binds every       *)
(* sampled delay to the logged value (the unlogged `sampled communication   *)
(* delay before FIFO clamping' is constrained to the support of the         *)
(* configured distribution).  Every clause that fails is named in `err`.    *)
(*                                                                         *)
(* Many traces are validated per TLC run (variable tid); one line           *)
(* VERDICT|tid|id|accept/reject|clause|detail is printed per trace.         *)
(***************************************************************************)
EXTENDS RexLaw, Json, IOUtils, TLCExt

Traces == JsonDeserialize(IOEnv.TRACE_FILE)
NA == -999999

VARIABLES tid, err, lp, done
tvars == <<tid, err, lp, done>>
allvars == <<lawvars, tvars>>

T == Traces[tid]
NoErr == <<>>
Err(clause, at, exp, got) == [clause |-> clause, at |-> at, exp |-> exp, got |-> got]

Steps(n) == T.steps[n]
Msgs(x) == T.msgs[x]
Log(n) == T.log[n]
HasRef == "ref" \in DOMAIN T
HasRefLog == "reflog" \in DOMAIN T
Truncated == "truncated" \in DOMAIN T.flags /\ T.flags.truncated   \* max_records cut the record: later executions are legitimate

(* recorded group of receiver tick j on connection x, as a set of message sequence numbers *)
RecGroup(x, j) == {Msgs(x)[i].seq_out : i \in {i \in 1..Len(Msgs(x)) : Msgs(x)[i].seq_in = j}}
SeqNums(g) == {g[i].seq : i \in 1..Len(g)}

(* agreement of two recorded rows of the same (node, tick) from two runs: every field both runs logged must be equal
   (the record's own episode counter is excluded; NA / empty window = not logged in that run) *)
IntFields == {"seq", "sched", "tsmax", "start", "end", "delay", "ps", "endprev", "sent_seq", "sent_ts", "h", "rngi", "out_h"}
RowsAgree(a, b) ==
  /\ \A f \in IntFields : a[f] = NA \/ b[f] = NA \/ a[f] = b[f]
  /\ \A x \in DOMAIN a.wins : a.wins[x] = <<>> \/ b.wins[x] = <<>> \/ a.wins[x] = b.wins[x]

(* first failing clause of a sequence of <<ok, errrecord>> pairs *)
FirstErr(cs) == LET bad == {i \in 1..Len(cs) : ~cs[i][1]} IN
                IF bad = {} THEN NoErr ELSE cs[CHOOSE i \in bad : \A j \in bad : i <= j][2]

---------------------------------------------------------------------------
(* ---- TimeStep bound to the record -------------------------------------- *)
TEn(n) == kt[n] < Len(Steps(n)) /\ TimeEnabled(n)

Emit(n, y) == kt[n] < Len(Msgs(y))
MRow(n, y) == Msgs(y)[kt[n] + 1]

(* FIFO-clamped receive time: recv = max(sent + d, prevRecv) for some d in the support *)
RecvOk(y, sent, recv) ==
  LET S == SeqToSet(ConnC(y).cdist) IN
  \/ (recv - sent) \in S /\ recv >= prevRecv[y]
  \/ recv = prevRecv[y] /\ \E d \in S : sent + d <= prevRecv[y]

TChecks(n) ==
  LET k == kt[n]
      row == Steps(n)[k + 1]
      v == TimeVals(n, row.delay)
      at == <<n, k>>
      base == <<
        <<row.seq = k, Err("StepSeqGapFree", at, k, row.seq)>>,
        <<row.eps = T.epsrec, Err("EpisodeCounter", at, T.epsrec, row.eps)>>,
        <<row.sched = NA \/ row.sched = v.sched, Err("ScheduledTime", at, v.sched, row.sched)>>,
        <<row.tsmax = NA \/ row.tsmax = v.tsmax, Err("BlockingArrivalMax", at, v.tsmax, row.tsmax)>>,
        <<row.endprev = NA \/ row.endprev = v.endprev, Err("PrevEnd", at, v.endprev, row.endprev)>>,
        <<row.ps = NA \/ row.ps = v.psb, Err("SchedulingDrift", at, v.psb, row.ps)>>,
        <<row.start = v.start, Err("StartTime", at, v.start, row.start)>>,
        <<row.delay \in SeqToSet(NodeC(n).cdist), Err("CompDelaySupport", at, NodeC(n).cdist, row.delay)>>,
        <<row.end = v.start + row.delay, Err("EndTime", at, v.start + row.delay, row.end)>>,
        <<row.sent_seq = NA \/ (row.sent_seq = k /\ row.sent_ts = row.end), Err("SentHeader", at, <<k, row.end>>, <<row.sent_seq, row.sent_ts>>)>>
      >>
      blk == [x \in BIns(n) |->
               <<RecGroup(x, k) = SeqNums(v.bg[x]), Err("BlockingGroup", <<x, k>>, SeqNums(v.bg[x]), RecGroup(x, k))>>]
      outm == [y \in {y \in Outs(n) : Emit(n, y)} |->
               LET m == MRow(n, y) IN
               IF m.seq_out # k THEN <<FALSE, Err("MsgSeqGapFree", <<y, k>>, k, m.seq_out)>>
               ELSE IF m.sent # v.end THEN <<FALSE, Err("MsgSentIsEnd", <<y, k>>, v.end, m.sent)>>
               ELSE IF m.recv < m.sent THEN <<FALSE, Err("MsgCausal", <<y, k>>, m.sent, m.recv)>>
               ELSE IF m.recv < prevRecv[y] THEN <<FALSE, Err("MsgFifo", <<y, k>>, prevRecv[y], m.recv)>>
               ELSE IF ~RecvOk(y, m.sent, m.recv) THEN <<FALSE, Err("MsgRecvIsSentPlusDelay", <<y, k>>, ConnC(y).cdist, <<m.sent, m.recv, prevRecv[y]>>)>>
               ELSE IF m.delay # m.recv - m.sent THEN <<FALSE, Err("MsgDelayField", <<y, k>>, m.recv - m.sent, m.delay)>>
               ELSE <<TRUE, NoErr>>]
      refc == IF HasRef /\ k < Len(T.ref.steps[n])
              THEN <<RowsAgree(T.ref.steps[n][k + 1], row), Err("Deterministic", at, T.ref.steps[n][k + 1], row)>>
              ELSE <<TRUE, NoErr>>
      refm == [y \in {y \in Outs(n) : Emit(n, y)} |->
               IF HasRef /\ k < Len(T.ref.msgs[y])
               THEN <<T.ref.msgs[y][k + 1] = MRow(n, y), Err("DeterministicMsg", <<y, k>>, T.ref.msgs[y][k + 1], MRow(n, y))>>
               ELSE <<TRUE, NoErr>>]
      RECURSIVE FnErr(_, _)
      FnErr(f, S) == IF S = {} THEN NoErr
                     ELSE LET x == CHOOSE y \in S : TRUE IN IF f[x][1] THEN FnErr(f, S \ {x}) ELSE f[x][2]
      e1 == FirstErr(base)
      e2 == FnErr(blk, DOMAIN blk)
      e3 == FnErr(outm, DOMAIN outm)
      e4 == IF refc[1] THEN NoErr ELSE refc[2]
      e5 == FnErr(refm, DOMAIN refm)
      e0 == FirstErr(SubSeq(base, 1, 2))
      \* which messages a step waits for (C03: the phase-determined step of a blocking connection) is judged before the times derived from them (C04)
  IN IF e0 # NoErr THEN e0 ELSE IF e2 # NoErr THEN e2 ELSE IF e1 # NoErr THEN e1 ELSE IF e3 # NoErr THEN e3 ELSE IF e4 # NoErr THEN e4 ELSE e5

DoT(n) ==
  LET e == TChecks(n)
      EmitN(y) == Emit(n, y)
      RecvN(y, end) == MRow(n, y).recv
  IN IF e # NoErr
     THEN err' = e /\ UNCHANGED <<lawvars, tid, lp, done>>
     ELSE TimeStep(n, Steps(n)[kt[n] + 1].delay, EmitN, RecvN) /\ UNCHANGED tvars

(* ---- Select bound to the record ----------------------------------------- *)
AllEmitted(x) == kt[ConnC(x).src] >= Len(Msgs(x))
SEn(x) == SelTimed(x) /\ (HasFuture(x) \/ AllEmitted(x))

DoS(x) ==
  LET j == SelTick(x)
      g == SelGroup(x)
      lawset == SeqNums(g)
      recset == RecGroup(x, j)
      diff == (lawset \ recset) \cup (recset \ lawset)
      w == CHOOSE s \in diff : \A s2 \in diff : s <= s2
  IN IF lawset # recset
     THEN /\ err' = Err("ConsumerStep", <<x, j>>,
                        [msg |-> w, law_consumes |-> w \in lawset, start |-> SelStart(x), recv |-> Msgs(x)[w + 1].recv,
                         buffer |-> ConnC(x).buffer, skip |-> ConnC(x).skip,
                         expected_arrival |-> w * NodeC(ConnC(x).src).period + ConnPhase(x)],
                        [record_seq_in |-> Msgs(x)[w + 1].seq_in])
          /\ UNCHANGED <<lawvars, tid, lp, done>>
     ELSE Select(x) /\ UNCHANGED tvars

(* ---- ExecStep bound to the record, the probe log and the observations --- *)
EEn(n) == ExecEnabled(n)

RowWins(row, n) == [x \in Ins(n) |-> row.wins[x]]
Executed(n, k) == ~(k \in SeqToSet(T.noexec[n]))
Cancelled(n, k) == k \in SeqToSet(T.cancelled[n])
(* position of tick k's rng in the split chain of the node's initial key: one split per executed tick *)
RngIdx(n, k) == k - Cardinality({c \in SeqToSet(T.cancelled[n]) : c < k})

EChecks(n) ==
  LET k == ke[n]
      row == Steps(n)[k + 1]
      at == <<n, k>>
      rf == T.rflags[n]
      wins == ExecWins(n)
      hn == ExecH(n)
      start == Head(pend[n]).start
      rec == <<
        <<~rf.state \/ row.h = hcur[n], Err("RecordStateBefore", at, hcur[n], row.h)>>,
        <<~rf.inputs \/ RowWins(row, n) = wins, Err("RecordWindow", at, wins, row.wins)>>,
        <<~rf.output \/ row.out_h = NA \/ (~Cancelled(n, k) /\ row.out_h = hn), Err("RecordOutput", at, hn, row.out_h)>>,
        <<~rf.rng \/ row.rngi = RngIdx(n, k), Err("RecordRngChain", at, RngIdx(n, k), row.rngi)>>
      >>
      obs == IF n = cfg.sup /\ k < Len(T.obs)
             THEN LET o == T.obs[k + 1] IN <<
               <<o.seq = k, Err("ObservedSeq", at, k, o.seq)>>,
               <<o.ts = start, Err("ObservedTs", at, start, o.ts)>>,
               <<o.h = hcur[n], Err("ObservedState", at, hcur[n], o.h)>>,
               <<o.rngi = RngIdx(n, k), Err("ObservedRng", at, RngIdx(n, k), o.rngi)>>,
               <<[x \in Ins(n) |-> o.wins[x]] = wins, Err("ObservedWindow", at, wins, o.wins)>> >>
             ELSE <<>>
      lg == IF T.flags.log /\ Executed(n, k)
            THEN IF lp[n] >= Len(Log(n)) THEN << <<FALSE, Err("ExactlyOnce_MissingExecution", at, k, "no further probe log entry")>> >>
                 ELSE LET e == Log(n)[lp[n] + 1] IN <<
                   <<e.seq = k, Err("ExactlyOnce", at, k, e.seq)>>,
                   <<e.eps = cfg.eps, Err("StepEps", at, cfg.eps, e.eps)>>,
                   <<e.ts = start, Err("StepTs", at, start, e.ts)>>,
                   <<e.h = hcur[n], Err("StepState", at, hcur[n], e.h)>>,
                   <<e.p = NodeC(n).p, Err("StepParams", at, NodeC(n).p, e.p)>>,
                   <<e.rngi = RngIdx(n, k), Err("StepRng", at, RngIdx(n, k), e.rngi)>>,
                   <<[x \in Ins(n) |-> e.wins[x]] = wins, Err("StepWindow", at, wins, e.wins)>>,
                   <<e.h_out = hn, Err("StepOutput", at, hn, e.h_out)>> >>
            ELSE <<>>
      \* the execution count is judged first: a step that ran with a foreign sequence number is an ExactlyOnce failure,
      \* whatever else it then gets wrong
      lgfirst == IF Len(lg) > 0 THEN <<lg[1]>> ELSE <<>>
  IN FirstErr(lgfirst \o rec \o obs \o lg)

DoE(n) ==
  LET e == EChecks(n) IN
  IF e # NoErr
  THEN err' = e /\ UNCHANGED <<lawvars, tid, lp, done>>
  ELSE /\ IF Cancelled(n, ke[n]) THEN SkipStep(n) ELSE ExecStep(n)
       /\ lp' = IF T.flags.log /\ Executed(n, ke[n]) THEN [lp EXCEPT ![n] = @ + 1] ELSE lp
       /\ UNCHANGED <<tid, err, done>>

---------------------------------------------------------------------------
(* ---- Static pre-checks, completion, batching ---------------------------- *)
PreErr(t) ==
  LET c == t.cfg
      bad == {x \in DOMAIN c.conns : Len(t.msgs[x]) > Len(t.steps[c.conns[x].src])}
  IN IF bad # {} /\ ~("tableonly" \in DOMAIN t.flags /\ t.flags.tableonly) THEN Err("MsgFromUnrecordedStep", CHOOSE x \in bad : TRUE, "len(msgs) <= len(steps[src])", "violated")
     ELSE NoErr

Complete ==
  /\ \A n \in Nodes : kt[n] = Len(Steps(n)) /\ ke[n] = Len(Steps(n))
  /\ \A n \in Nodes : ~T.flags.log \/ lp[n] = Len(Log(n))

(* Table-only comparison (records truncated by max_records cannot be timed by the law beyond the cut: they are only
   compared, row by row and message by message, with the untruncated reference run; probe logs entirely) *)
TableOnly == "tableonly" \in DOMAIN T.flags /\ T.flags.tableonly
TableErr ==
  LET badrow == {nk \in UNION {{<<n, k>> : k \in 1..Len(Steps(n))} : n \in Nodes} :
                   nk[2] <= Len(T.ref.steps[nk[1]]) /\ ~RowsAgree(T.ref.steps[nk[1]][nk[2]], Steps(nk[1])[nk[2]])}
      badmsg == {xi \in UNION {{<<x, i>> : i \in 1..Len(Msgs(x))} : x \in Conns} :
                   xi[2] <= Len(T.ref.msgs[xi[1]]) /\ T.ref.msgs[xi[1]][xi[2]] # Msgs(xi[1])[xi[2]]}
      badlog == {nj \in UNION {{<<n, j>> : j \in 1..Len(Log(n))} : n \in Nodes} :
                   nj[2] <= Len(T.reflog[nj[1]]) /\ T.reflog[nj[1]][nj[2]] # Log(nj[1])[nj[2]]}
      \* a (truncated) record still holds every message its recorded steps consumed
      short == {x \in Conns : Len(Msgs(x)) < Cardinality({i \in 1..Len(T.ref.msgs[x]) : T.ref.msgs[x][i].seq_in < Len(Steps(ConnC(x).dst))})}
  IN IF badrow # {} THEN LET nk == CHOOSE z \in badrow : TRUE IN Err("Deterministic", nk, T.ref.steps[nk[1]][nk[2]], Steps(nk[1])[nk[2]])
     ELSE IF badmsg # {} THEN LET xi == CHOOSE z \in badmsg : TRUE IN Err("DeterministicMsg", xi, T.ref.msgs[xi[1]][xi[2]], Msgs(xi[1])[xi[2]])
     ELSE IF badlog # {} THEN LET nj == CHOOSE z \in badlog : TRUE IN Err("InertLog", nj, T.reflog[nj[1]][nj[2]], Log(nj[1])[nj[2]])
     ELSE IF short # {} THEN LET x == CHOOSE z \in short : TRUE IN
          Err("RecordMessagesComplete", x, Cardinality({i \in 1..Len(T.ref.msgs[x]) : T.ref.msgs[x][i].seq_in < Len(Steps(ConnC(x).dst))}), Len(Msgs(x)))
     ELSE NoErr

FinalErr ==
  IF TableOnly THEN TableErr
  ELSE IF err # NoErr THEN err
  ELSE IF \E n \in Nodes : kt[n] < Len(Steps(n))
  THEN LET n == CHOOSE n \in Nodes : kt[n] < Len(Steps(n)) IN
       Err("Stuck_RecordedStepNotTimable", <<n, kt[n]>>, "blocking inputs available", [kt |-> kt, ke |-> ke])
  ELSE IF \E n \in Nodes : ke[n] < Len(Steps(n))
  THEN LET n == CHOOSE n \in Nodes : ke[n] < Len(Steps(n)) IN
       Err("Stuck_RecordedStepNotExecutable", <<n, ke[n]>>, "groups and payloads available", [kt |-> kt, ke |-> ke, nsel |-> nsel])
  ELSE IF HasRefLog /\ \E n \in Nodes : \E j \in 1..Len(Log(n)) : j <= Len(T.reflog[n]) /\ Log(n)[j] # T.reflog[n][j]
  THEN LET n == CHOOSE n \in Nodes : \E j \in 1..Len(Log(n)) : j <= Len(T.reflog[n]) /\ Log(n)[j] # T.reflog[n][j]
           j == CHOOSE j \in 1..Len(Log(n)) : j <= Len(T.reflog[n]) /\ Log(n)[j] # T.reflog[n][j]
       IN Err("InertLog", <<n, j - 1>>, T.reflog[n][j], Log(n)[j])
  ELSE IF T.flags.log /\ ~Truncated /\ \E n \in Nodes : lp[n] < Len(Log(n))
  THEN LET n == CHOOSE n \in Nodes : lp[n] < Len(Log(n)) IN
       Err("ExactlyOnce_ExtraExecution", <<n, Log(n)[lp[n] + 1].seq>>, Len(Steps(n)), Len(Log(n)))
  \* the params the record reports for a node are the params its recorded steps used (logged once per episode)
  ELSE IF "recparams" \in DOMAIN T /\ \E n \in DOMAIN T.recparams : T.recparams[n] # NodeC(n).p
  THEN LET n == CHOOSE n \in DOMAIN T.recparams : T.recparams[n] # NodeC(n).p IN Err("RecordParams", <<n>>, NodeC(n).p, T.recparams[n])
  ELSE NoErr

AnyEnabled == (\E n \in Nodes : TEn(n)) \/ (\E x \in Conns : SEn(x)) \/ (\E n \in Nodes : EEn(n))

Verdict(e) ==
  PrintT("VERDICT|" \o ToString(tid) \o "|" \o T.id \o "|" \o (IF e = NoErr THEN "accept" ELSE "reject") \o "|"
         \o (IF e = NoErr THEN "-" ELSE e.clause) \o "|" \o ToString(e))

Finish ==
  /\ Verdict(FinalErr)
  /\ IF tid < Len(Traces)
     THEN /\ tid' = tid + 1
          /\ err' = PreErr(Traces[tid + 1])
          /\ lp' = [n \in DOMAIN Traces[tid + 1].cfg.nodes |-> 0]
          /\ done' = FALSE
          /\ cfg' = Traces[tid + 1].cfg
          /\ ph' = [n \in DOMAIN cfg'.nodes |-> PhaseOf(cfg', n)]
          /\ kt' = [n \in DOMAIN cfg'.nodes |-> 0]
          /\ ke' = [n \in DOMAIN cfg'.nodes |-> 0]
          /\ endPrev' = [n \in DOMAIN cfg'.nodes |-> 0]
          /\ ps' = [n \in DOMAIN cfg'.nodes |-> 0]
          /\ pend' = [n \in DOMAIN cfg'.nodes |-> <<>>]
          /\ q' = [x \in DOMAIN cfg'.conns |-> <<>>]
          /\ prevRecv' = [x \in DOMAIN cfg'.conns |-> 0]
          /\ nsel' = [x \in DOMAIN cfg'.conns |-> 0]
          /\ grp' = [x \in DOMAIN cfg'.conns |-> <<>>]
          /\ win' = [x \in DOMAIN cfg'.conns |-> [i \in 1..cfg'.conns[x].window |->
                      [seq |-> -1, sent |-> 0, recv |-> 0, nid |-> cfg'.nodes[cfg'.conns[x].src].nid, eps |-> -1, dseq |-> -1, h |-> 0]]]
          /\ hcur' = [n \in DOMAIN cfg'.nodes |-> cfg'.nodes[n].nid + 1]
          /\ outh' = [n \in DOMAIN cfg'.nodes |-> <<>>]
          /\ hist' = [n \in DOMAIN cfg'.nodes |-> <<>>]
     ELSE done' = TRUE /\ UNCHANGED <<lawvars, tid, err, lp>>

TInit ==
  /\ tid = 1
  /\ err = PreErr(Traces[1])
  /\ lp = [n \in DOMAIN Traces[1].cfg.nodes |-> 0]
  /\ done = FALSE
  /\ LawInit(Traces[1].cfg)

TNext ==
  /\ ~done
  /\ IF err # NoErr \/ ~AnyEnabled \/ TableOnly THEN Finish
     ELSE IF \E n \in Nodes : TEn(n) THEN DoT(CHOOSE n \in Nodes : TEn(n))
     ELSE IF \E x \in Conns : SEn(x) THEN DoS(CHOOSE x \in Conns : SEn(x))
     ELSE DoE(CHOOSE n \in Nodes : EEn(n))

TSpec == TInit /\ [][TNext]_allvars

(* All traces were processed (the behaviour is one line; diameter counts its states) *)
AllDone == TLCGet("stats").generated >= 1
=============================================================================
