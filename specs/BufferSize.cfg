SPECIFICATION Spec
CONSTANTS
  G = 5
  Ws = {1, 2}
  MaxN = 8
INVARIANT FormulaSafe
INVARIANT Monotone
CHECK_DEADLOCK FALSE
