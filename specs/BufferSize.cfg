SPECIFICATION Spec
CONSTANTS
  G = 5
  Ws = {1, 2}
  MaxN = 8
INVARIANT FormulaSafe
CHECK_DEADLOCK FALSE
