------------------------------- MODULE RexGen -------------------------------
(***************************************************************************)
(* Generated / augmented computation graphs (rex/artificial.py) against     *)
(* the generator law.  One trace = one episode of a base.Graph returned by  *)
(* generate_graphs / augment_graphs plus the node configuration.            *)
(*                                                                         *)
(* Node n (period P, phase ph, computation-delay support D):                *)
(*   its vertices start at the phase, are spaced at least one period apart, *)
(*   last one sampled computation delay, never overlap, and none ends       *)
(*   after the horizon.                                                     *)
(* Connection x (support C, skip):                                          *)
(*   message i is received one sampled, non-negative communication delay    *)
(*   after its sender finished - FIFO-clamped like everywhere else in rex   *)
(*   (Edge contract: ts_recv monotone) - and is assigned to the first       *)
(*   receiver step starting at or after (strictly after for skip) its       *)
(*   arrival, -1 if there is none.                                          *)
(* The state walks over the nodes and connections of the trace; every       *)
(* failing clause is named.                                                 *)
(***************************************************************************)
EXTENDS Integers, Sequences, FiniteSets, TLC, Json, IOUtils, TLCExt

Traces == JsonDeserialize(IOEnv.TRACE_FILE)
VARIABLES tid, fin
vars == <<tid, fin>>
T == Traces[tid]
NoErr == <<>>
Err(clause, at, exp, got) == [clause |-> clause, at |-> at, exp |-> exp, got |-> got]
SeqToSet(s) == {s[i] : i \in 1..Len(s)}
MaxSet(S) == CHOOSE x \in S : \A y \in S : x >= y

RECURSIVE PhaseOf(_, _)
PhaseOf(c, n) ==
  LET ins == {x \in DOMAIN c.conns : c.conns[x].dst = n /\ ~c.conns[x].skip}
  IN IF ins = {} THEN 0
     ELSE MaxSet({0} \cup {PhaseOf(c, c.conns[x].src) + c.nodes[c.conns[x].src].delay + c.conns[x].delay : x \in ins})

(* ---- one node ----------------------------------------------------------- *)
NodeErr(t, n) ==
  LET v == t.verts[n]        \* rows [seq, start, end] including padding rows (seq = -1)
      nc == t.cfg.nodes[n]
      real == {i \in 1..Len(v) : v[i].seq >= 0}
      checkLaw == n \in SeqToSet(t.generated_nodes)
      bad1 == {i \in real : v[i].seq # i - 1}
      bad2 == {i \in 1..Len(v) : v[i].seq < 0 /\ \E j \in real : j > i}
      bad3 == {i \in real : ~((v[i].end - v[i].start) \in SeqToSet(nc.cdist))}
      bad4 == {i \in real : i > 1 /\ (v[i].start < v[i - 1].start + nc.period \/ v[i].start < v[i - 1].end)}
      bad5 == {i \in real : v[i].end > t.ts_max}
  IN IF ~checkLaw THEN NoErr
     ELSE IF bad1 # {} THEN Err("VertexSeqGapFree", <<n, CHOOSE i \in bad1 : TRUE>>, "seq = index", v)
     ELSE IF bad2 # {} THEN Err("PaddingOnlyAsSuffix", <<n, CHOOSE i \in bad2 : TRUE>>, "seq = -1 rows only after all real rows", v)
     ELSE IF real # {} /\ v[1].start # PhaseOf(t.cfg, n) THEN Err("FirstStartIsPhase", <<n>>, PhaseOf(t.cfg, n), v[1].start)
     ELSE IF bad3 # {} THEN LET i == CHOOSE i \in bad3 : TRUE IN Err("DurationIsSampledDelay", <<n, i - 1>>, nc.cdist, v[i].end - v[i].start)
     ELSE IF bad4 # {} THEN LET i == CHOOSE i \in bad4 : TRUE IN Err("SpacingAndNoOverlap", <<n, i - 1>>, <<v[i - 1].start + nc.period, v[i - 1].end>>, v[i].start)
     ELSE IF bad5 # {} THEN LET i == CHOOSE i \in bad5 : TRUE IN Err("NothingEndsAfterHorizon", <<n, i - 1>>, t.ts_max, v[i].end)
     ELSE NoErr

(* ---- one connection ----------------------------------------------------- *)
FirstStepAtOrAfter(v, recv, skip) ==
  LET c == {i \in 1..Len(v) : v[i].seq >= 0 /\ (IF skip THEN v[i].start > recv ELSE v[i].start >= recv)}
  IN IF c = {} THEN -1 ELSE v[CHOOSE i \in c : \A j \in c : i <= j].seq

ConnErr(t, x) ==
  LET cc == t.cfg.conns[x]
      e == t.edges[x]           \* rows [out, in, recv] (out = -1: padding)
      vs == t.verts[cc.src]
      vr == t.verts[cc.dst]
      real == {i \in 1..Len(e) : e[i].out >= 0}
      S == SeqToSet(cc.cdist)
      sent(i) == vs[e[i].out + 1].end
      prev(i) == IF i = 1 THEN 0 ELSE e[i - 1].recv
      bad0 == {i \in real : e[i].out # i - 1 \/ e[i].out >= Len(vs) \/ vs[e[i].out + 1].seq < 0}
      bad1 == {i \in real : e[i].recv < sent(i)}
      \* one sampled delay after the sender finished; a FIFO-clamped receive time (as in the threaded runtime) is accepted too
      bad2 == {i \in real : ~(\/ (e[i].recv - sent(i)) \in S
                              \/ e[i].recv = prev(i) /\ \E d \in S : sent(i) + d <= prev(i))}
      bad3 == {i \in real : e[i].in # FirstStepAtOrAfter(vr, e[i].recv, cc.skip)}
  IN IF ~(x \in SeqToSet(t.generated_conns)) THEN NoErr
     ELSE IF bad0 # {} THEN Err("EdgeSeqOutGapFree", <<x, CHOOSE i \in bad0 : TRUE>>, "seq_out = index of an existing sender vertex", e)
     ELSE IF bad1 # {} THEN LET i == CHOOSE i \in bad1 : TRUE IN Err("ReceivedAfterSent", <<x, i - 1>>, sent(i), e[i].recv)
     ELSE IF bad2 # {} THEN LET i == CHOOSE i \in bad2 : \A j \in bad2 : i <= j IN
          Err("RecvIsEndPlusSampledDelay", <<x, i - 1>>, [support |-> cc.cdist, sent |-> sent(i), prev_recv |-> prev(i)], e[i].recv)
     ELSE IF bad3 # {} THEN LET i == CHOOSE i \in bad3 : \A j \in bad3 : i <= j IN
          Err("AssignedToFirstStepAtOrAfterArrival", <<x, i - 1>>,
              [first_step |-> FirstStepAtOrAfter(vr, e[i].recv, cc.skip), recv |-> e[i].recv, skip |-> cc.skip, prev_recv |-> prev(i)], e[i].in)
     ELSE NoErr

(* ---- augmentation: what existed is returned unchanged, exactly the missing parts are added ----- *)
AugErr(t) ==
  IF ~("before" \in DOMAIN t) THEN NoErr
  ELSE LET b == t.before IN
       IF \E n \in DOMAIN b.verts : ~(n \in DOMAIN t.verts) \/ t.verts[n] # b.verts[n]
       THEN Err("AugmentKeepsVertices", <<CHOOSE n \in DOMAIN b.verts : ~(n \in DOMAIN t.verts) \/ t.verts[n] # b.verts[n]>>, "unchanged", "changed")
       ELSE IF \E x \in DOMAIN b.edges : ~(x \in DOMAIN t.edges) \/ t.edges[x] # b.edges[x]
       THEN Err("AugmentKeepsEdges", <<CHOOSE x \in DOMAIN b.edges : ~(x \in DOMAIN t.edges) \/ t.edges[x] # b.edges[x]>>, "unchanged", "changed")
       ELSE IF DOMAIN t.verts # DOMAIN t.cfg.nodes THEN Err("AugmentAddsMissingNodes", <<>>, DOMAIN t.cfg.nodes, DOMAIN t.verts)
       ELSE IF DOMAIN t.edges # DOMAIN t.cfg.conns THEN Err("AugmentAddsMissingConnections", <<>>, DOMAIN t.cfg.conns, DOMAIN t.edges)
       ELSE NoErr

RECURSIVE FirstNodeErr(_, _)
FirstNodeErr(t, S) == IF S = {} THEN NoErr ELSE LET a == CHOOSE z \in S : TRUE IN
                      IF NodeErr(t, a) # NoErr THEN NodeErr(t, a) ELSE FirstNodeErr(t, S \ {a})
RECURSIVE FirstConnErr(_, _)
FirstConnErr(t, S) == IF S = {} THEN NoErr ELSE LET a == CHOOSE z \in S : TRUE IN
                      IF ConnErr(t, a) # NoErr THEN ConnErr(t, a) ELSE FirstConnErr(t, S \ {a})

TraceErr(t) ==
  LET e0 == AugErr(t)
      e1 == FirstNodeErr(t, DOMAIN t.verts)
      e2 == FirstConnErr(t, DOMAIN t.edges)
  IN IF e0 # NoErr THEN e0 ELSE IF e1 # NoErr THEN e1 ELSE e2

Verdict(e) ==
  PrintT("VERDICT|" \o ToString(tid) \o "|" \o T.id \o "|" \o (IF e = NoErr THEN "accept" ELSE "reject") \o "|"
         \o (IF e = NoErr THEN "-" ELSE e.clause) \o "|" \o ToString(e))

GInit == tid = 1 /\ fin = FALSE
GNext == /\ ~fin
         /\ Verdict(TraceErr(T))
         /\ IF tid < Len(Traces) THEN tid' = tid + 1 /\ fin' = FALSE ELSE fin' = TRUE /\ tid' = tid
GSpec == GInit /\ [][GNext]_vars
=============================================================================
