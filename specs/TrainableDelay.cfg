SPECIFICATION Spec
CONSTANTS
  Periods = {2, 3}
  Jitters = {0, 1}
  M = 4
  MaxTs = 10
  Ranges <- RangesDef
  Ws = {1, 2}
INVARIANT Emit
CHECK_DEADLOCK FALSE
