"""Graph configurations on the 1/64 s grid: JSON-able config <-> real rex nodes, and seeded generators.

Config format (all times integer ticks of 1/64 s):
{
  "nodes": [ {"name": "n0", "nid": 0, "period": 4, "delay": 1, "cdist": [1,2], "advance": false,
              "sched": "F"|"P", "p": 3} , ...],
  "conns": [ {"out": "n0", "in": "n1", "name": "n0"|shadow, "blocking": false, "skip": false,
              "jitter": "L"|"B", "window": 2, "delay": 1, "cdist": [0,1,3]} , ...],
  "sup": "n1"
}
"""
import random
from typing import Dict

from rex.constants import Jitter, Scheduling

from .probes import GRID, GridDist, ProbeNode


def build_nodes(cfg, log=True, use_callback=True, dist_override=None) -> Dict[str, ProbeNode]:
    nodes = {}
    tag = 0
    for n in cfg["nodes"]:
        tag += 1
        dist = GridDist.create(n["cdist"], tag=tag)
        nodes[n["name"]] = ProbeNode(
            name=n["name"],
            rate=GRID / n["period"],
            delay=n["delay"] / GRID,
            delay_dist=dist,
            advance=bool(n.get("advance", False)),
            scheduling=Scheduling.FREQUENCY if n.get("sched", "F") == "F" else Scheduling.PHASE,
            nid=n["nid"],
            p=n.get("p", 0),
            log=log,
            use_callback=use_callback,
        )
        if n.get("ts_bump"):
            nodes[n["name"]].ts_bump = n["ts_bump"] / GRID
    for c in cfg["conns"]:
        tag += 1
        dist = GridDist.create(c["cdist"], tag=tag)
        if "train" in c:  # trainable (zero-order-hold) communication delay, C10
            from rex.base import TrainableDist
            tr = c["train"]
            dist = TrainableDist.create(delay=tr.get("d0", tr["min"]) / GRID, min=tr["min"] / GRID, max=tr["max"] / GRID)
            if "d_init" in tr:  # the delay is set through init_delays (any value: saturates at the bounds)
                nodes[c["in"]].delays_override[c.get("name", c["out"])] = tr["d_init"] / GRID
            if tr.get("from_params"):
                nodes[c["in"]].delay_from_params.append(c.get("name", c["out"]))
        nodes[c["in"]].connect(
            nodes[c["out"]],
            blocking=bool(c["blocking"]),
            delay=c["delay"] / GRID,
            delay_dist=dist,
            window=int(c["window"]),
            skip=bool(c["skip"]),
            jitter=Jitter.LATEST if c.get("jitter", "L") == "L" else Jitter.BUFFER,
            name=c.get("name", c["out"]),
        )
    return nodes


# ----------------------------------------------------------------------------------------------
# Static analysis of a config (phases, supportedness)
# ----------------------------------------------------------------------------------------------
def phases(cfg):
    """Node phases (ticks): longest expected-delay path over un-skipped connections. None if loop."""
    nodes = {n["name"]: n for n in cfg["nodes"]}
    ins = {n: [] for n in nodes}
    for c in cfg["conns"]:
        ins[c["in"]].append(c)
    memo, onstack = {}, set()

    def ph(n):
        if n in memo:
            return memo[n]
        if n in onstack:
            raise RecursionError(n)
        onstack.add(n)
        v = 0
        for c in ins[n]:
            if c["skip"]:
                continue
            v = max(v, ph(c["out"]) + nodes[c["out"]]["delay"] + c["delay"])
        onstack.discard(n)
        memo[n] = v
        return v

    try:
        return {n: ph(n) for n in nodes}
    except RecursionError:
        return None


def _reachable_from_sup_ancestors(cfg):
    """Nodes that are (transitively) inputs of the supervisor."""
    ins = {}
    for c in cfg["conns"]:
        ins.setdefault(c["in"], []).append(c["out"])
    seen, stack = set(), [cfg["sup"]]
    while stack:
        n = stack.pop()
        for o in ins.get(n, []):
            if o not in seen:
                seen.add(o)
                stack.append(o)
    return seen


def gen_config(rng: random.Random, n_nodes=None, allow_blocking=True, allow_buffer=True, allow_advance=True,
               allow_phase_sched=True, shadow_names=True, max_window=3, periods=(2, 4, 8), heavy=True, tie_rich=False):
    """Seeded random supported graph (DESIGN 3.2)."""
    for _ in range(1000):
        k = n_nodes or rng.choice([2, 3, 3, 4])
        names = [f"n{i}" for i in range(k)]
        nodes = []
        for i, nm in enumerate(names):
            period = rng.choice(periods)
            # computation delays: mostly below the period, sometimes overrunning
            pool = [0, 1, 2, 3] if period <= 2 else [0, 1, 2, 3, 5]
            if heavy and rng.random() < 0.4:
                pool = pool + [period + 1, 2 * period + 1]
            cd = sorted(set(rng.sample(pool, rng.choice([1, 2, 3]))))
            if cd == [0] and rng.random() < 0.7:
                cd = [1]
            nodes.append(dict(name=nm, nid=i, period=period, delay=rng.choice([0, 1, max(cd)]), cdist=cd,
                              advance=False, sched=rng.choice(["F", "P"]) if allow_phase_sched else "F",
                              p=rng.randrange(0, 50)))
        # connections: random DAG order for un-skipped ones; skipped ones may go backwards
        order = names[:]
        rng.shuffle(order)
        pos = {n: i for i, n in enumerate(order)}
        conns, seen = [], set()
        n_conn = rng.randint(k - 1, min(k + 2, k * (k - 1)))
        tries = 0
        while len(conns) < n_conn and tries < 100:
            tries += 1
            a, b = rng.sample(names, 2)  # a -> b
            if (a, b) in seen:
                continue
            forward = pos[a] < pos[b]
            skip = (not forward) or rng.random() < 0.15
            blocking = allow_blocking and rng.random() < 0.4
            jitter = "B" if (allow_buffer and not blocking and rng.random() < 0.3) else "L"
            pool = [0, 1, 2, 3]
            if heavy and rng.random() < 0.4:
                pool += [5, 9]
            cd = sorted(set(rng.sample(pool, rng.choice([1, 2, 3]))))
            nm = a if (not shadow_names or rng.random() < 0.6) else f"in_{a}"
            conns.append(dict(out=a, name=nm, blocking=blocking, skip=skip, jitter=jitter,
                              window=rng.randint(1, max_window), delay=rng.choice([0, 1, max(cd)]), cdist=cd,
                              **{"in": b}))
            seen.add((a, b))
        sup = rng.choice(names)
        if tie_rich:
            # every delay a multiple of the common period: receive times coincide with step starts and with each other
            # (FIFO clamps, double ties) far more often than with free grid values
            P = rng.choice([2, 4])
            for n in nodes:
                n["period"] = P * rng.choice([1, 1, 2])
                n["cdist"] = sorted(set(rng.sample([0, P, P, 2 * P], rng.choice([1, 2]))))
                n["delay"] = rng.choice([0, P])
            for c in conns:
                c["cdist"] = sorted(set(rng.sample([0, P, 2 * P, 3 * P], rng.choice([2, 3]))))
                c["delay"] = rng.choice([0, P])
        cfg = dict(nodes=nodes, conns=conns, sup=sup)
        if allow_advance:
            for n in nodes:
                has_block = any(c["in"] == n["name"] and c["blocking"] for c in conns)
                if has_block and rng.random() < 0.3:
                    n["advance"] = True
        if is_supported(cfg):
            return cfg
    raise RuntimeError("could not generate a supported config")


def is_supported(cfg) -> bool:
    nodes = {n["name"]: n for n in cfg["nodes"]}
    if phases(cfg) is None:
        return False
    sup = cfg["sup"]
    sup_ins = [c for c in cfg["conns"] if c["in"] == sup]
    if not sup_ins:
        return False
    # every node must be connected to something
    touched = set()
    for c in cfg["conns"]:
        touched.add(c["in"])
        touched.add(c["out"])
    if touched != set(nodes):
        return False
    for n in cfg["nodes"]:
        has_block = any(c["in"] == n["name"] and c["blocking"] for c in cfg["conns"])
        if n.get("advance") and not has_block:
            return False
    # look-ahead condition (iv): blocking connections: producer not much faster than consumer,
    # expected delays below the receiver period
    for c in cfg["conns"]:
        if c["blocking"]:
            po, pi = nodes[c["out"]]["period"], nodes[c["in"]]["period"]
            if pi / po > 4:
                return False
    # (iv, second half) a blocking connection that lies on a cycle: the expected computation delay of its sender and its expected
    # communication delay must stay below one period of the receiver; otherwise delays accumulate around the cycle (rex itself warns:
    # "The sampling time is smaller than the output phase ... may lead to large (accumulating) delays") and the 10-token look-ahead of
    # the simulated clock can run dry: step() then never returns (seen once in the seed soak, tie-rich grid, DESIGN 10.3)
    succ = {}
    for c in cfg["conns"]:
        succ.setdefault(c["out"], set()).add(c["in"])

    def reaches(a, b):
        seen, todo = set(), [a]
        while todo:
            x = todo.pop()
            for y in succ.get(x, ()):
                if y == b:
                    return True
                if y not in seen:
                    seen.add(y)
                    todo.append(y)
        return False

    for c in cfg["conns"]:
        if c["blocking"] and reaches(c["in"], c["out"]):
            pi = nodes[c["in"]]["period"]
            if nodes[c["out"]]["delay"] >= pi or c["delay"] >= pi:
                return False
            # ... and neither end of it may be a node that cannot keep up with its own rate (expected computation delay >= own period: rex's
            # own warning "The sampling time is smaller than the output phase"): inside a blocking feedback loop its lag grows without bound
            # and the look-ahead runs dry under schedules that let the workers run far ahead of the user (seen once: thorough C02, user-last)
            for e in (c["out"], c["in"]):
                if nodes[e]["delay"] >= nodes[e]["period"]:
                    return False
    # non-blocking connection from a much slower producer stalls the consumer's look-ahead only
    # by token count: consumer may need up to period_out/period_in steps per message
    for c in cfg["conns"]:
        po, pi = nodes[c["out"]]["period"], nodes[c["in"]]["period"]
        if po / pi > 4:
            return False
    return True
