"""Compiled runtime: build real rex.graph.Graph instances (from recorded or generated computation graphs) and project
their public schedule (Graph.graphs_raw, Graph.timings, buffer shapes) and executions to traces."""
import math
import random

import jax
import jax.numpy as jnp
import numpy as onp

from rex import base
from rex.artificial import augment_graphs, generate_graphs
from rex.constants import Supergraph
from rex.graph import Graph

from . import arun, gen, probes, trace
from .probes import GRID, to_grid

MODES = {"mcs": Supergraph.MCS, "gen": Supergraph.GENERATIONAL, "topo": Supergraph.TOPOLOGICAL}


def edge_windows(cfg):
    """total window per edge key 'src>dst' (connection window + trainable extension), computed from the config only"""
    out = {}
    for c in cfg["conns"]:
        ext = 0
        if "train" in c:
            per_out = [n for n in cfg["nodes"] if n["name"] == c["out"]][0]["period"]
            ext = int(math.ceil((GRID / per_out) * ((c["train"]["max"] - c["train"]["min"]) / GRID)))
        out[trace.conn_id(c)] = int(c["window"]) + ext
    return out


def raw_episode(graphs_raw, e):
    """Raw graph of episode e as integer tables (only real rows)."""
    verts, edges = {}, {}
    for k, v in graphs_raw.vertices.items():
        seq = onp.asarray(v.seq)[e]
        ts, te = onp.asarray(v.ts_start)[e], onp.asarray(v.ts_end)[e]
        rows = []
        for j in range(len(seq)):
            if seq[j] < 0:
                continue
            rows.append(dict(seq=int(seq[j]), start=to_grid(ts[j], "ts_start"), end=to_grid(te[j], "ts_end")))
        verts[k] = rows
    for (a, b), ed in graphs_raw.edges.items():
        so, si, tr = onp.asarray(ed.seq_out)[e], onp.asarray(ed.seq_in)[e], onp.asarray(ed.ts_recv)[e]
        rows = []
        for j in range(len(so)):
            if so[j] < 0:
                continue
            rows.append({"out": int(so[j]), "in": int(si[j]), "recv": to_grid(tr[j], "ts_recv") if si[j] >= 0 or tr[j] >= 0 else 0})
        edges[f"{a}>{b}"] = rows
    return verts, edges


def project_static(G: Graph, cfg, e, buf, tid, prune):
    """Static schedule trace of episode e (RexSchedule)."""
    tm = jax.tree_util.tree_map(lambda x: onp.asarray(x), G.timings)
    gens = tm.to_generation()
    P = next(iter(tm.slots.values())).run.shape[-1]
    verts, edges = raw_episode(G.graphs_raw, e)
    out_gens = []
    for p in range(P):
        for gi, g in enumerate(gens):
            slots = []
            for sname in sorted(g.keys()):
                s = g[sname]
                if not bool(s.run[e, p]):
                    continue
                wins = {}
                for a, w in s.windows.items():
                    wins[a] = [dict(seq=int(w.seq[e, p, j]), sent=to_grid(w.ts_sent[e, p, j]), recv=to_grid(w.ts_recv[e, p, j]))
                               for j in range(w.seq.shape[-1])]
                slots.append(dict(slot=sname, kind=s.kind, seq=int(s.seq[e, p]), start=to_grid(s.ts_start[e, p]), end=to_grid(s.ts_end[e, p]),
                                  wins=wins))
            last = gi == len(gens) - 1
            if slots or last:
                out_gens.append(dict(p=p, last=last, slots=slots))
    return dict(id=str(tid), sup=cfg["sup"], prune=bool(prune), H=int(P), W=edge_windows(cfg), verts=verts, edges=edges, gens=out_gens,
                buf={k: int(buf.get(k, 1)) for k in verts})


def buffer_sizes_of(gs):
    out = {}
    for k, b in gs.buffer.items():
        leaves = jax.tree_util.tree_leaves(b)
        out[k] = int(leaves[0].shape[0]) if leaves else 1
    return out


def schedule_features(t):
    f = set()
    if not t["prune"]:
        f.add("prune_off")
    per_kind = {}
    for g in t["gens"]:
        for s in g["slots"]:
            per_kind[s["kind"]] = per_kind.get(s["kind"], 0) + 1
            for a, w in s["wins"].items():
                if any(x["seq"] >= 0 for x in w) and any(x["seq"] < 0 for x in w):
                    f.add("partially_filled_window")
                if len(w) > 1 and all(x["seq"] >= 0 for x in w):
                    f.add("full_multi_window")
    if any(v > t["H"] for v in per_kind.values()):
        f.add("multi_rate")
    if any(b > 1 for b in t["buf"].values()):
        f.add("ring_gt_1")
    for k, rows in t["edges"].items():
        ins = [r["in"] for r in rows if r["in"] >= 0]
        if len(ins) != len(set(ins)):
            f.add("multi_message_step")
    return sorted(f)


class NoRecord(Exception):
    pass


def record_graphs(cfg, seed, histories, jit_step=True):
    """Run the threaded runtime and return (ExperimentRecord-derived stacked base.Graph, episodes, harness)."""
    h = arun.AsyncHarness(cfg, seed=seed, jit_step=jit_step)
    if any("cdist_alt" in n for n in cfg["nodes"]):
        # episodes of ONE experiment recorded from two systems that differ in a computation-delay distribution (odd episodes use cdist_alt):
        # structurally different timings / run masks between the episodes of one compiled graph
        import copy
        cfg2 = copy.deepcopy(cfg)
        for n in cfg2["nodes"]:
            if "cdist_alt" in n:
                n["cdist"] = n.pop("cdist_alt")
        h2 = arun.AsyncHarness(cfg2, seed=seed, jit_step=jit_step)
    else:
        h2 = h
    # one history at a time; the episode number in the graph state (it is part of every payload) is the index the episode will have in the
    # stacked graph: an episode without a record (get_record() raises when a connection consumed nothing) does not use up a number
    eps = []
    for i, hist in enumerate(histories):
        got, _ = arun.run_history(h2 if i % 2 else h, list(hist), eps0=len(eps), vary_rng=True)
        eps += [e for e in got if "record_raw" in e]
    if not eps:
        raise NoRecord("no episode produced a record (a connection consumed no message: get_record() raises, outside the properties)")
    exp = base.ExperimentRecord(episodes=[e["record_raw"] for e in eps])
    return exp.to_graph(), eps, h


def generated_graphs(cfg, seed, ts_max_ticks, num_episodes):
    nodes = gen.build_nodes(cfg)
    g = generate_graphs(nodes, ts_max=ts_max_ticks / GRID, rng=jax.random.PRNGKey(seed), num_episodes=num_episodes)
    return g, nodes


# ----------------------------------------------------------------------------------------------
# Executions of the compiled runtime
# ----------------------------------------------------------------------------------------------
def api_ops(history):
    ops = []
    for c in history:
        if c == "run":
            ops += ["RU", "RS"]
        elif c == "reset":
            ops += ["RU"]
        elif c == "step":
            ops += ["RS", "RU"]
        elif c == "stepo":
            ops += ["RSo", "RU"]
        elif c == "stepx":
            ops += ["RSx", "RU"]
        elif c.startswith("rollout:"):
            ops += ["RU", "RS"] * int(c.split(":")[1])
        else:
            raise ValueError(c)
    return ops


class CompiledRunner:
    """Drives a real rex.graph.Graph through API call histories (eagerly, jitted or vmapped)."""

    def __init__(self, G: Graph, nodes, cfg, jit=True):
        self.G, self.nodes, self.cfg = G, nodes, cfg
        self.sup = nodes[cfg["sup"]]
        self.jit = jit
        self._fns = {}

    def _fn(self, name, f):
        if not self.jit:
            return f
        if name not in self._fns:
            self._fns[name] = jax.jit(f)
        return self._fns[name]

    def exec_history(self, gs, history):
        """Gym-style driving: the step state returned by reset()/step() is what an override is computed from."""
        G = self.G
        ss = None
        self.ss_mismatch = []
        self.xover = []     # what every 'stepx' handed over: the SAME (stale) step state and output, computed once from reset()'s step state
        stale = None

        def check_ss(call, gs_, ss_):
            # the returned step state must be the supervisor's step state of the returned graph state
            a = jax.tree_util.tree_leaves(ss_)
            b = jax.tree_util.tree_leaves(gs_.step_state[self.sup.name])
            same = len(a) == len(b) and all(onp.array_equal(onp.asarray(x), onp.asarray(y)) for x, y in zip(a, b))
            if not same:
                self.ss_mismatch.append(call)

        for ci, c in enumerate(history):
            if c == "run":
                gs = self._fn("run", G.run)(gs)
                ss = None
            elif c == "reset":
                gs, ss = self._fn("reset", G.reset)(gs)
                check_ss(f"{ci}:reset", gs, ss)
            elif c == "step":
                gs, ss = self._fn("step", lambda g: G.step(g))(gs)
                check_ss(f"{ci}:step", gs, ss)
            elif c == "stepo":
                sup = self.sup
                was = sup.do_log
                sup.do_log = False
                try:
                    new_ss, out = sup.step(ss if ss is not None else gs.step_state[sup.name])
                finally:
                    sup.do_log = was
                gs, ss = self._fn("stepo", lambda g, s, o: G.step(g, s, o))(gs, new_ss, out)
                check_ss(f"{ci}:stepo", gs, ss)
            elif c == "stepx":
                sup = self.sup
                if stale is None:
                    was = sup.do_log
                    sup.do_log = False
                    try:
                        stale = sup.step(ss if ss is not None else gs.step_state[sup.name])
                    finally:
                        sup.do_log = was
                xs, xo = stale
                self.xover.append(dict(h=int(onp.asarray(xs.state.h)), rng=tuple(int(v) for v in onp.asarray(xs.rng).reshape(-1)),
                                       pl=dict(eps=int(onp.asarray(xo.eps)), dseq=int(onp.asarray(xo.seq)), h=int(onp.asarray(xo.h)))))
                gs, ss = self._fn("stepo", lambda g, s, o: G.step(g, s, o))(gs, xs, xo)
                check_ss(f"{ci}:stepx", gs, ss)
            elif c.startswith("rollout:"):
                n = int(c.split(":")[1])
                gs = self._fn(c, lambda g: G.rollout(g, max_steps=n))(gs)
                ss = None
            else:
                raise ValueError(c)
        jax.block_until_ready(gs)
        jax.effects_barrier()
        return gs


def log_for_run(entries, cfg, rngidx):
    """Probe log (projected) -> RexRun log entries in execution order."""
    nid2name = {n["nid"]: n["name"] for n in cfg["nodes"]}
    imap = trace.input_name_map(cfg)
    out = []
    for e in entries:
        k = nid2name[e["nid"]]
        wins = {}
        for iname, v in e["inputs"].items():
            src = imap[k][iname].split(">")[0]
            wins[src] = trace.win_entries(v)
        out.append(dict(kind=k, seq=e["seq"], eps=e["eps"], ts=e["ts"], h=e["h"], h_out=e["h_out"], p=e["p"],
                        rngi=(rngidx.idx(k, e["rng"]) if rngidx is not None else trace.NA), wins=wins))
    return out


def project_record_compiled(rec, cfg, rngidx):
    """aux['record'] (EpisodeRecord of the compiled runtime) -> {kind: rows}"""
    out = {}
    for k, nr in rec.nodes.items():
        s = nr.steps
        seq = onp.asarray(s.seq)
        rows = []
        for j in range(len(seq)):
            row = dict(seq=int(seq[j]), eps=int(onp.asarray(s.eps)[j]), start=(to_grid(onp.asarray(s.ts_start)[j]) if seq[j] >= 0 else -1),
                       h=trace.NA, out_h=trace.NA, rngi=trace.NA)
            if s.state is not None and seq[j] >= 0:
                row["h"] = int(onp.asarray(s.state.h)[j])
            if s.output is not None and seq[j] >= 0:
                row["out_h"] = int(onp.asarray(s.output.h)[j])
            if s.rng is not None and seq[j] >= 0 and rngidx is not None:
                row["rngi"] = rngidx.idx(k, tuple(int(v) for v in onp.asarray(s.rng)[j].reshape(-1)))
            if s.inputs is not None and seq[j] >= 0:
                # the recorded input windows of this step (keyed by sender, like the probe log)
                imap = trace.input_name_map(cfg)
                wins = {}
                for iname, inp in s.inputs.items():
                    src = imap[k][iname].split(">")[0]
                    W = onp.asarray(inp.seq).shape[1]
                    v = dict(seq=[int(x) for x in onp.asarray(inp.seq)[j]], ts_sent=[to_grid(x) for x in onp.asarray(inp.ts_sent)[j]],
                             ts_recv=[to_grid(x) for x in onp.asarray(inp.ts_recv)[j]], nid=[int(x) for x in onp.asarray(inp.data.nid)[j]],
                             eps=[int(x) for x in onp.asarray(inp.data.eps)[j]], dseq=[int(x) for x in onp.asarray(inp.data.seq)[j]],
                             h=[int(x) for x in onp.asarray(inp.data.h)[j]])
                    wins[src] = trace.win_entries(v)[-W:]
                row["wins"] = wins
            rows.append(row)
        out[k] = rows
    return out


def project_run(static_trace, cfg, gs0, history, log_entries, gs_final, rngidx, tid, rec=None, ref=None, h0=None, train=None, xover=None):
    """RexRun trace of one call history executed from graph state gs0 (episode = static_trace's episode)."""
    kinds = {}
    for n in cfg["nodes"]:
        k = n["name"]
        kinds[k] = dict(nid=n["nid"], p=int(onp.asarray(gs0.params[k].p)), h0=int(onp.asarray(gs0.state[k].h)), rng0=0)
    t = dict(id=str(tid), sup=cfg["sup"], P=static_trace["H"], eps=int(onp.asarray(gs0.eps)), step0=int(onp.asarray(gs0.step)),
             kinds=kinds, buf=static_trace["buf"], gens=static_trace["gens"], ops=api_ops(history),
             log=log_for_run(log_entries, cfg, rngidx),
             final=dict(step=int(onp.asarray(gs_final.step)), h={k: int(onp.asarray(gs_final.state[k].h)) for k in kinds},
                        seq={k: int(onp.asarray(gs_final.seq[k])) for k in kinds}))
    if rec is not None:
        t["rec"] = rec
    if ref is not None:
        t["ref"] = ref
    if xover:
        idx = [i + 1 for i, o in enumerate(t["ops"]) if o == "RSx"]
        assert len(idx) == len(xover)
        t["opx"] = {str(i): dict(h=x["h"], rngi=(rngidx.idx(cfg["sup"], x["rng"]) if rngidx is not None else trace.NA), pl=x["pl"]) for i, x in zip(idx, xover)}
    if train:
        t["train"] = train
        t["ref_first"] = True
    return t
