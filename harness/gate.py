"""Deterministic scheduler for the threaded runtime (DESIGN 3.3).

`install(sched)` replaces, in the namespace of rex.asynchronous only, the names
    Future, ThreadPoolExecutor, RLock, deque, time
by scheduler-controlled look-alikes.  No rex source is touched.  Exactly one controlled thread runs at a time and
hands the token back at every scheduling point:

    executor: task dequeue (enabled iff the FIFO is non-empty)
    lock:     outermost acquisition (no yield while any lock is held, so _submit is atomic)
    future:   result() (enabled iff done), set_result(), cancel()
    deque:    every operation on a deque that has been touched by more than one thread
    time:     sleep() on a virtual clock that only advances when nothing else can run

"No enabled thread while the user thread is inside a call" is a *logical* deadlock (LogicalDeadlock) - no wall
clock is involved.  The scheduler logs every scheduling point (the internal trace) and the list of choices (replay).
"""
import collections
import concurrent.futures as cf
import random
import sys
import threading

_real_deque = collections.deque


class LogicalDeadlock(Exception):
    pass


class SchedulerAbort(BaseException):
    """Raised inside abandoned worker threads after a deadlock so that they unwind."""


class _T:
    __slots__ = ("name", "go", "waiting", "cond", "label", "wake", "lockdepth", "is_user", "ident", "prio", "prio_starve")

    def __init__(self, name, is_user=False):
        self.name = name
        self.go = False
        self.waiting = False
        self.cond = None
        self.label = None
        self.wake = None
        self.lockdepth = 0
        self.is_user = is_user
        self.ident = None
        self.prio = 0.0
        self.prio_starve = 0


class Scheduler:
    """policy: 'random' | 'pct' | 'burst' | 'user_first' | 'user_last' | 'replay'"""

    def __init__(self, seed=0, policy="random", replay=None, pct_depth=2, pct_len=600, burst=0.8, trace=False,
                 max_points=200000, deque_points=True):
        self.cv = threading.Condition()
        self.threads = {}  # ident -> _T
        self.by_name = {}
        self.rng = random.Random(seed)
        self.policy = policy
        self.replay = list(replay) if replay is not None else None
        self.replay_pos = 0
        self.choices = []
        self.trace_on = trace
        self.trace = []
        self.now = 1000.0  # virtual time
        self.deadlock = None
        self.aborting = False
        self.task_errors = []
        self.n_points = 0
        self.max_points = max_points
        self.burst = burst
        self.last = None
        self.pct_changes = sorted(self.rng.sample(range(1, pct_len), min(pct_depth, pct_len - 1))) if policy == "pct" else []
        self.enabled = True
        self.deque_points = deque_points   # False = coarse gate (RexAsync's granularity): deque operations are not scheduling points
        self.choice_labels = []
        self.fair = 40
        self.quiesce_waiter = None
        u = _T("user", is_user=True)
        u.ident = threading.get_ident()
        self.threads[u.ident] = u
        self.by_name["user"] = u
        self.user = u
        self.running = u

    def call_boundary(self, label=None):
        """User thread, between two API calls: the OS may pre-empt the user here for any length of time (a scheduling point of its own).
        Under the 'sweep' policy the user is held back for exactly `hold` scheduling points of the other threads after every boundary and
        then runs alone as long as it can - a one-preemption sweep over the instants at which the next call can begin."""
        self.hold_left = getattr(self, "hold", 0)
        self.point("call")

    def new_schedule(self, seed=0, policy="random", replay=None, pct_depth=2, pct_len=600, burst=0.8, hold=0):
        """Start a fresh schedule (same threads). Call only at a quiescent point from the user thread."""
        self.rng = random.Random(seed)
        self.policy = policy
        self.replay = list(replay) if replay is not None else None
        self.replay_pos = 0
        self.replay_diverged = 0
        self.choices = []
        self.choice_labels = []
        self.trace = []
        self.n_points = 0
        self.burst = burst
        self.hold = int(hold)
        self.hold_left = 0
        self.fair = max(40, self.hold + 8)
        self.last = None
        self.task_errors = []
        self.pct_changes = sorted(self.rng.sample(range(1, pct_len), min(pct_depth, pct_len - 1))) if policy == "pct" else []
        if policy == "pct":
            for t in self.by_name.values():
                t.prio = self.rng.random()

    # -- registration -------------------------------------------------------------------------
    def register_worker(self, name):
        t = _T(name)
        if self.policy == "pct":
            t.prio = self.rng.random()
        # unique names
        base, k = name, 1
        while t.name in self.by_name:
            k += 1
            t.name = f"{base}#{k}"
        self.by_name[t.name] = t
        return t

    def me(self):
        return self.threads.get(threading.get_ident())

    # -- core ------------------------------------------------------------------------------------
    def log(self, t, label, detail=None):
        if self.trace_on:
            self.trace.append((t.name, label, detail))

    def _enabled(self, t):
        if not t.waiting:
            return False
        if t.wake is not None:
            return self.now >= t.wake
        if t is self.quiesce_waiter:
            return False  # handled separately (lowest priority)
        try:
            return True if t.cond is None else bool(t.cond())
        except Exception:
            return False

    def _pick(self):
        """Choose the next thread to run. Called with cv held, by the thread that is about to wait."""
        while True:
            cands = [t for t in self.by_name.values() if self._enabled(t)]
            if cands:
                break
            sleepers = [t for t in self.by_name.values() if t.waiting and t.wake is not None]
            if sleepers:
                self.now = min(t.wake for t in sleepers)
                continue
            if self.quiesce_waiter is not None and self.quiesce_waiter.waiting:
                cands = [self.quiesce_waiter]
                break
            # nothing can run
            self.deadlock = dict(waiting={t.name: t.label for t in self.by_name.values() if t.waiting})
            self.aborting = True
            for t in self.by_name.values():
                t.go = True
            self.cv.notify_all()
            return
        cands.sort(key=lambda t: t.name)
        # fairness (rex relies on a fair OS scheduler: a source node never blocks): an enabled thread that was
        # passed over `fair` times in a row is scheduled next
        starved = None
        if self.replay is None:
            for t in cands:
                t.prio_starve = getattr(t, "prio_starve", 0) + 1
                if t.prio_starve > self.fair and (starved is None or t.prio_starve > starved.prio_starve):
                    starved = t
        ch = starved if starved is not None else self._choose(cands)
        ch.prio_starve = 0
        self.choices.append(ch.name)
        self.choice_labels.append((ch.name, ch.label))
        self.last = ch
        ch.go = True
        self.running = ch
        self.cv.notify_all()

    def _choose(self, cands):
        if self.replay is not None:
            if self.replay_pos < len(self.replay):
                want = self.replay[self.replay_pos]
                self.replay_pos += 1
                for t in cands:
                    if t.name == want:
                        return t
                # divergence: fall through to first candidate (deterministic)
                self.replay_diverged = getattr(self, "replay_diverged", 0) + 1
            return cands[0]
        p = self.policy
        if p == "sweep":
            users = [t for t in cands if t.is_user]
            non = [t for t in cands if not t.is_user]
            if users and (self.hold_left <= 0 or not non):
                return users[0]
            if users:
                self.hold_left -= 1
            return self.rng.choice(non) if non else cands[0]
        if p == "user_first":
            for t in cands:
                if t.is_user:
                    return t
            return self.rng.choice(cands)
        if p == "user_last":
            non = [t for t in cands if not t.is_user]
            return self.rng.choice(non) if non else cands[0]
        if p == "burst":
            if self.last in cands and self.rng.random() < self.burst:
                return self.last
            return self.rng.choice(cands)
        if p == "pct":
            if self.pct_changes and self.n_points >= self.pct_changes[0]:
                self.pct_changes.pop(0)
                if self.last is not None:
                    self.last.prio = -self.rng.random()  # demote the running thread
            return max(cands, key=lambda t: t.prio)
        return self.rng.choice(cands)

    def point(self, label, cond=None, detail=None, wake=None):
        """A scheduling point of the calling (controlled) thread."""
        t = self.me()
        if t is None or not self.enabled:
            return
        if t.lockdepth > 0:
            return  # never yield while holding a wrapper lock
        with self.cv:
            if self.aborting:
                if t.is_user:
                    raise LogicalDeadlock(str(self.deadlock))
                raise SchedulerAbort()
            self.n_points += 1
            if self.n_points > self.max_points:
                self.deadlock = dict(livelock=True, points=self.n_points)
                self.aborting = True
                for o in self.by_name.values():   # release every parked thread (they abort at their scheduling point)
                    o.go = True
                self.cv.notify_all()
                if t.is_user:
                    raise LogicalDeadlock(str(self.deadlock))
                raise SchedulerAbort()
            self.log(t, label, detail)
            t.waiting, t.cond, t.label, t.wake = True, cond, label, wake
            t.go = False
            self._pick()
            while not t.go:
                self.cv.wait()
            t.waiting, t.cond, t.wake = False, None, None
            if self.aborting:
                if t.is_user:
                    raise LogicalDeadlock(str(self.deadlock))
                raise SchedulerAbort()

    def worker_enter(self, t):
        """First action of a worker thread: wait until scheduled."""
        t.ident = threading.get_ident()
        with self.cv:
            self.threads[t.ident] = t

    def quiesce(self):
        """User thread: let every other thread run until none is enabled (episode boundary)."""
        t = self.me()
        assert t is self.user
        with self.cv:
            self.quiesce_waiter = t
        try:
            self.point("quiesce")
        finally:
            with self.cv:
                self.quiesce_waiter = None

    def disable(self):
        """Stop scheduling: every thread runs freely from now on (used at teardown)."""
        with self.cv:
            self.enabled = False
            for t in self.by_name.values():
                t.go = True
            self.cv.notify_all()


# ------------------------------------------------------------------------------------------------
def make_primitives(S: Scheduler):
    class GatedFuture(cf.Future):
        _ids = [0]

        def __init__(self):
            super().__init__()
            GatedFuture._ids[0] += 1
            self.gid = GatedFuture._ids[0]

        def result(self, timeout=None):
            S.point("fut.result", cond=self.done, detail=self.gid)
            return super().result(timeout=0 if S.me() is not None and S.enabled else timeout)

        def set_result(self, v):
            S.point("fut.set_result", detail=self.gid)
            return super().set_result(v)

        def cancel(self):
            S.point("fut.cancel", detail=self.gid)
            return super().cancel()

    class GatedRLock:
        def __init__(self):
            self._l = threading.RLock()

        def acquire(self, *a, **k):
            t = S.me()
            if t is not None and t.lockdepth == 0:
                S.point("lock")
            r = self._l.acquire(*a, **k)
            if t is not None:
                t.lockdepth += 1
            return r

        def release(self):
            t = S.me()
            if t is not None:
                t.lockdepth -= 1
            self._l.release()

        __enter__ = acquire

        def __exit__(self, *a):
            self.release()

    class GatedExecutor:
        def __init__(self, max_workers=1, thread_name_prefix=""):
            assert max_workers == 1
            self.q = _real_deque()
            self.t = S.register_worker(thread_name_prefix or "worker")
            self.name = self.t.name
            self.thread = threading.Thread(target=self._loop, name=self.name, daemon=True)
            self._shutdown = False
            self.thread.start()
            # wait until the worker has registered and parked itself
            while not self.t.waiting:
                threading.Event().wait(0.0005)

        def _loop(self):
            S.worker_enter(self.t)
            # park without taking part in a scheduling decision (the creating thread keeps the token)
            with S.cv:
                self.t.waiting, self.t.cond, self.t.label = True, (lambda: len(self.q) > 0), "dequeue"
                self.t.go = False
                while not self.t.go:
                    S.cv.wait()
                self.t.waiting, self.t.cond = False, None
            first = True   # the initial park above already was the scheduling point of the first dequeue
            try:
                while True:
                    if first and S.enabled:
                        first = False
                        if not self.q:
                            continue
                    elif not S.enabled:
                        # free-running fallback after disable(): behave like a normal worker
                        while not self.q:
                            threading.Event().wait(0.001)
                            if self._shutdown:
                                return
                    else:
                        first = False
                        S.point("dequeue", cond=lambda: len(self.q) > 0)   # every task start is a scheduling point
                        if not self.q:
                            continue
                    if S.aborting:
                        return
                    f, fn, a, k = self.q.popleft()
                    if not f.set_running_or_notify_cancel():
                        continue
                    S.log(self.t, "task.start", getattr(fn, "__name__", str(fn)))
                    try:
                        r = fn(*a, **k)
                    except SchedulerAbort:
                        return
                    except BaseException as e:  # noqa
                        S.task_errors.append((self.name, getattr(fn, "__name__", str(fn)), repr(e)))
                        cf.Future.set_exception(f, e)
                    else:
                        cf.Future.set_result(f, r)
                    S.log(self.t, "task.end", getattr(fn, "__name__", str(fn)))
            except SchedulerAbort:
                return

        def submit(self, fn, *a, **k):
            f = GatedFuture()
            S.log(S.me() or self.t, "submit", (self.name, getattr(fn, "__name__", str(fn))))
            self.q.append((f, fn, a, k))
            # (no scheduling point here: rex submits under the wrapper's lock, and nothing yields while a lock is held.  A pre-emption "right
            # after the submit" is the same as one right before the submitter's next access to shared state - which is a point of its own,
            # provided the deque it touches is known to be shared: see GatedDeque._shared_sites, added after seeded change C05-f)
            return f

        def shutdown(self, wait=True):
            self._shutdown = True

    class GatedDeque(_real_deque):
        """deque whose operations become scheduling points once a second thread has touched it."""

        _shared_sites = set()   # creation sites (file, line) of deques that turned out to be shared between threads: rex re-creates its
                                # deques at every reset(), so from the second episode on the FIRST two touches of such a deque race as well

        def __init__(self, *a, **k):
            super().__init__(*a, **k)
            try:
                fr = sys._getframe(1)
                self._site = (fr.f_code.co_filename, fr.f_lineno)
            except Exception:  # noqa
                self._site = None

        def _touch(self, op):
            t = S.me()
            if t is None:
                return
            try:
                own = self._owners
            except AttributeError:
                own = self._owners = set()
                self._shared = getattr(self, "_site", None) in GatedDeque._shared_sites
            if not self._shared:
                own.add(t.name)
                if len(own) > 1:
                    self._shared = True
                    if getattr(self, "_site", None) is not None:
                        GatedDeque._shared_sites.add(self._site)
            if self._shared and S.deque_points:
                S.point("deque." + op)

        def append(self, x):
            self._touch("append")
            return super().append(x)

        def popleft(self):
            self._touch("popleft")
            return super().popleft()

        def __len__(self):
            self._touch("len")
            return super().__len__()

        def __getitem__(self, i):
            self._touch("getitem")
            return super().__getitem__(i)

        def extend(self, it):
            self._touch("extend")
            return super().extend(it)

    class VirtualTime:
        @staticmethod
        def time():
            # wall-clock mode (S.tick_eps > 0): a strictly increasing clock - on a real clock two readings never coincide, and rex's wall
            # clock relies on it (a step of duration exactly 0 raises "Did you overwrite step_state.ts ...")
            eps = getattr(S, "tick_eps", 0.0)
            if eps:
                S.now += eps
            return S.now

        @staticmethod
        def sleep(dt):
            if dt <= 0:
                return
            t = S.me()
            if t is None or not S.enabled:
                return
            S.point("sleep", wake=S.now + dt, detail=dt)

    return dict(Future=GatedFuture, RLock=GatedRLock, ThreadPoolExecutor=GatedExecutor, deque=GatedDeque, time=VirtualTime)


_saved = {}


def install(S: Scheduler):
    import rex.asynchronous as ra

    prim = make_primitives(S)
    for k, v in prim.items():
        if k not in _saved:
            _saved[k] = getattr(ra, k)
        setattr(ra, k, v)
    return prim


def uninstall():
    import rex.asynchronous as ra

    for k, v in _saved.items():
        setattr(ra, k, v)
