"""Generates MANIFEST.json from one table (keeps it valid and in sync with the registry)."""
import json
import os

ROOT = os.path.dirname(os.path.dirname(os.path.abspath(__file__)))

TRUST = ("TLC 1.8; the harness' projections (harness/arun.py, trace.py); the probe nodes (user-level rex nodes); time restricted to the 1/64 s grid "
         "(DESIGN 3.1); supported graph class / call protocol of DESIGN 3.2")

CHECKS = {
    "C02": dict(level="model_checking", ref="6 C02",
                technique="TLA+ law (RexLaw) + TLC confluence check + trace validation (RexTrace) of gate-scheduled and free-running executions, cross-run agreement clauses",
                text="RexLaw is order-independent (MC_RexLawConfluence: all interleavings of the law's steps, fixed delay streams, terminal states agree); the real AsyncGraph is run under a deterministic one-thread-at-a-time scheduler with 5 policies x 3 driving styles x real-time factors (virtual time) and free-running; every record and every returned supervisor StepState must be a behaviour of RexLaw and agree with the first run on the common prefix; with Normal / mixture delays the runs of one initial graph state under different schedules must agree on the common prefix after projection to microseconds (RexOrder)."),
    "C03": dict(level="model_checking", ref="6 C03",
                technique="TLA+ law (RexLaw) model-checked over all delay histories + trace validation (RexTrace) of episode records and probe logs; order-only trace validation (RexOrder) of continuous-distribution and wall-clock episodes",
                text="The causality / FIFO / consumer-step / window clauses are invariants of RexLaw over all delay histories of small instances (TLC); every recorded episode of generated graphs (all policy combinations, heavy jitter) is validated against the law message by message; episodes with Normal / mixture delays and wall-clock episodes (gate, virtual time) are validated against the order relations of the statement (RexOrder)."),
    "C04": dict(level="model_checking", ref="6 C04",
                technique="TLA+ law (RexLaw) invariants (StartLaw, PhaseReturnsToGrid, FrequencySpacing) + trace validation of every recorded time stamp",
                text="Exact equality of every recorded ts_scheduled/ts_max/ts_start/ts_end/delay/phase_scheduled and message ts_sent/ts_recv with the law; derived spacing/phase/advance claims are TLC invariants of the law."),
    "C05": dict(level="model_checking", ref="6 C05",
                technique="PlusCal model of the synchronizer/lifecycle hand-shake (RexSync) exhaustively + deterministic gate-scheduler exploration of the real AsyncGraph over lifecycle histories (random / PCT / burst / user-first / user-last policies and a one-preemption sweep over the instants at which the next call begins) + trace validation of consecutive episodes; internal traces of coarse-gate executions validated against the PlusCal model of the task structure (RexAsync)",
                text="RexSync (one label per shared access) has no stall state for any protocol history up to the bound with stop() as repaired, and finds both pinned defects with Fixed=FALSE; the real code is driven through 8 lifecycle histories x gate schedules: a logical deadlock, an escaped exception or a failed worker task is a violation; records of later episodes must be behaviours of the law from seq 0 / time 0 with payloads of their own episode only. The same histories run under Clock.WALL_CLOCK (gate, strictly increasing virtual time): calls must return, completed episodes are validated by RexOrder (sequence numbers from 0, episode clock from 0 although one node's startup() hook takes 5 virtual seconds)."),
    "C06": dict(level="model_checking", ref="6 C06",
                technique="trace validation: probe-log execution counts against RexLaw ticks (RexTrace clauses ExactlyOnce*) and against the abstract machine of the compiled runtime (RexRun: RU/RS/RSo/RSx micro-operations over the projected Graph.timings)",
                text="The host-side probe log is the execution count: RexTrace consumes exactly one log entry per executed tick in sequence order, none for overridden / cancelled supervisor ticks, and rejects leftovers. Compiled: RexRun consumes per generation exactly the run=True slots, none for masked slots, overridden supervisor steps and kinds in Graph(skip=[...]); rollouts of every stacked episode, gym-style histories with overrides, a full-length gym episode (the only way to reach the last partition), stacked episodes whose run masks differ, runs from out-of-range episode indices; outside an episode a warmup() not asked to profile executes no step function."),
}


CHECKS.update({
    "C01": dict(level="translation_validation", ref="6 C01",
                technique="translation validation: probe logs of the threaded and the compiled runtime compared step by step inside a TLA+ trace specification (RexRun clauses MatchesAsync_*), compiled log validated as a run of the abstract machine RexRun",
                text="Each (graph, recorded experiment, supergraph mode, prune, episode) is a program pair: the episode is recorded on the threaded runtime, converted, compiled and re-executed from the same initial rng/params/state; RexRun accepts the compiled probe log only if every step equals the asynchronous one (eps/seq, start time, rng chain position, state, windows incl. payloads, output)."),
    "C07": dict(level="model_checking", ref="6 C07",
                technique="TLA+ abstract machine of the schedule (RexSchedule) replaying the public Graph.timings of real compiled instances against independent TLA+ definitions (WindowOf from raw edges)",
                text="Every episode of every compiled instance (recorded and generated graphs, 3 supergraph modes x prune x S_init) is executed generation by generation by RexSchedule: EachVertexOnce, InSeqOrder, ProducersFirst, SupClosesPartition, CarriesOwnTimes, CarriesOwnWindow, RequiredExecuted."),
    "C08": dict(level="model_checking", ref="6 C08",
                technique="TLA+ ring-buffer machine (RexRun / RexSchedule): static replay of Graph.timings against buffer sizes + trace validation of payloads seen by probe nodes in real compiled executions; TLA+ model of the sizing rule (BufferSize) checked by TLC on every bounded schedule and replayed on the real Timings.get_buffer_sizes()",
                text="RexRun models the output ring buffers (write at seq mod size at generation end, read at window.seq mod size); the payload of every window entry a probe saw must be what the model reads (ReadsRing) and that must be the scheduled producer emission or the default output (ScheduledPayload); buffer sizes automatic, extra_padding 0/1/3 and user-supplied (minimum..minimum+2; below the minimum must be refused); the sizing rule (BufferSize: FormulaSafe, Monotone) on every bounded schedule and on pairs of consumers of one producer, bound to get_buffer_sizes() / get_output_buffer(); an exception out of rex on a supported graph is a violation."),
    "C09": dict(level="model_checking", ref="6 C09",
                technique="TLA+ API model (RexApi) enumerating call histories with their normal forms via TLC + replay on the real Graph with trace validation (RexRun API layer) and bitwise comparison of GraphStates of equal-normal-form histories",
                text="TLC enumerates all call histories over run/reset/step/step-with-override/rollout up to the bound; each is replayed jitted (and eagerly for a sample): probe log, step counter, sequence numbers and node states must follow RexRun; histories with the same normal form must leave bitwise identical GraphState pytrees; init() clipping and params override, vmapped = un-batched, full-trajectory = carry-only rollout."),
    "C13": dict(level="model_checking", ref="6 C13",
                technique="trace validation: records against probe logs inside RexTrace / RexRun (Record* clauses), cross-run agreement (Deterministic, InertLog) over record-flag combinations and max_records",
                text="Threaded runtime: every record-flag combination and truncation of the same graph/seed/history must be a behaviour of RexLaw, agree with the fully recorded run on the common prefix and leave the probe logs identical; compiled runtime: aux['record'] rows (start, state, output, rng position, the input windows the step was called with) equal the probe log for executed steps and stay -1 otherwise, final GraphState minus the record is identical with and without recording."),
})

CHECKS.update({
    "C16": dict(level="model_checking", ref="6 C16",
                technique="TLA+ state machine of the configuration API (NodeConfig) checked exhaustively; simulator walks of NodeConfigSim (operation kind chosen first) replayed on real BaseNode objects with state comparison after every call; episodes after set_delay validated by RexTrace",
                text="NodeConfig: phase = longest expected-delay path over un-skipped connections, loop iff un-skipped cycle upstream, setters and the info round trip; every TLC behaviour is replayed on real nodes and phase / delays / distribution identity / input keys (shadow names) are compared through attributes and through node.info; simulated episodes after set_delay must follow the law with the new distributions."),
})

CHECKS.update({
    "C12": dict(level="model_checking", ref="6 C12",
                technique="TLA+ generator law (RexGen) judging every episode of real generate_graphs / augment_graphs results (trace validation); acyclicity via to_networkx_graph(validate=True)",
                text="Each generated or augmented episode is a trace checked clause by clause against the generator law defined in TLA+ (phase, spacing, sampled durations, horizon, FIFO receive times from the support, first-step-at-or-after-arrival assignment, augmentation keeps/ adds exactly)."),
    "C14": dict(level="model_checking", ref="6 C14",
                technique="TLA+ algebra of abstract graphs (GraphAlgebra: Strip/Index/Stack/Filter/ToNx laws) recomputing the result of every real call from its inputs",
                text="Real records and graphs (ragged, shadow names, lost messages, experiments of separately built systems) are pushed through to_graph / stack / index / filter / to_networkx; TLC recomputes each right-hand side from the inputs with the TLA+ definitions and compares."),
})

CHECKS.update({
    "C10": dict(level="model_checking", ref="6 C10",
                technique="TLA+ model of the zero-order-hold selection (TrainableDelay: ZohWindow vs StaticWindow) enumerated exhaustively by TLC; every enumerated case replayed on the real TrainableDist.apply_delay; end to end: runs of compiled systems with the delay set to d validated by RexRun (ZohApply) with the run of the static-delay system as reference",
                text="All sender timelines / step times / delays / windows / skip of the bounded instance; the real apply_delay must return exactly `window` entries equal to the window a static delay d would give; the two classes in which it does not (skip tie, under-sized extension) were found by TLC on the model, reproduced on the code and are listed as known findings; any other disagreement is a violation. End to end: for generated graphs with one trainable connection, every d in 0..max+1 set through the distribution, init_delays or params: the compiled run must be a behaviour of RexRun whose every common step sees what the step of the compiled static-delay system saw."),
    "C18": dict(level="model_checking", ref="6 C18",
                technique="TLA+ solver state machine (Solvers) over all loss histories incl. NaN, checked by TLC and replayed on the real cem_update_mean_stdev; per-iteration traces of real cem_step/evo_step validated by SolversTrace",
                text="Every loss history of the bounded instance is replayed exactly on rex.cem (best loss, best candidate, elite set); end-to-end CEM and evosax runs with NaN regions are validated iteration by iteration (bounds, monotone best, best = min finite so far, best member attained it) incl. per-dimension bounds, pinned parameters, a single elite, multi-leaf parameter trees."),
    "C19": dict(level="model_checking", ref="6 C19",
                technique="TLA+ state machine of the wrapper stack (RlWrappers) over all reward/termination histories, replayed on a real wrapped Environment over a compiled graph",
                text="All histories of length L: after every step the observation, flags, logged episode return/length, timestep, graph step, running moments (exact integer sums) and the supervisor output in the graph buffer must equal the model; invariants LogAccounting, AutoResetSemantics, MomentsOfEverythingSeen, ScheduleInForce (episode and schedule after an auto-reset into another recorded episode); off-centre action boxes, only_init, an observation signal shifted by 1000 (moments within float32 tolerance)."),
})

NA = {
    "C11": "numeric claim about one pure function (interpolation exactness, continuity, gradient); no state, schedule or history for a TLA+ model to decide (DESIGN 7)",
    "C15": "numeric/statistical claims about pure distribution functions (quantiles, CDF agreement, estimator normalisation) (DESIGN 7)",
    "C17": "floating-point inverse identities of stateless pytree transforms; a TLA+ model would verify arithmetic, not rex (DESIGN 7)",
    "C20": "equality of two floating-point forward passes over all observations and network shapes; pure numeric (DESIGN 7)",
}

PENDING = {} and {'C01': 'check under construction in this round; will be claimed once its TLA+ specification and conformance harness are committed', 'C07': 'check under construction in this round; will be claimed once its TLA+ specification and conformance harness are committed', 'C08': 'check under construction in this round; will be claimed once its TLA+ specification and conformance harness are committed', 'C09': 'check under construction in this round; will be claimed once its TLA+ specification and conformance harness are committed', 'C10': 'check under construction in this round; will be claimed once its TLA+ specification and conformance harness are committed', 'C12': 'check under construction in this round; will be claimed once its TLA+ specification and conformance harness are committed', 'C13': 'check under construction in this round; will be claimed once its TLA+ specification and conformance harness are committed', 'C14': 'check under construction in this round; will be claimed once its TLA+ specification and conformance harness are committed', 'C16': 'check under construction in this round; will be claimed once its TLA+ specification and conformance harness are committed', 'C18': 'check under construction in this round; will be claimed once its TLA+ specification and conformance harness are committed', 'C19': 'check under construction in this round; will be claimed once its TLA+ specification and conformance harness are committed'}


def build(claimed=None):
    claimed = claimed or sorted(CHECKS)
    checks = []
    for pid in claimed:
        c = CHECKS[pid]
        checks.append(dict(
            property_id=pid,
            quick_cmd=f"./check {pid} --tier quick",
            thorough_cmd=f"./check {pid} --tier thorough",
            evidence_file=f"/verif/evidence/{pid}.json",
            replay_cmd_template=f"./check {pid} --replay {{path}}",
            engine="tlc+harness",
            level_claimed=dict(category=c["level"], text=c["text"], design_ref=c["ref"]),
            level_note=TRUST,
            technique=c["technique"],
        ))
    na = [dict(property_id=k, reason=v) for k, v in sorted(NA.items())]
    na += [dict(property_id=k, reason=v) for k, v in sorted(PENDING.items()) if k not in claimed]
    m = dict(
        version=1,
        setup_cmd="./check setup",
        hooks=dict(
            guard="REX_VERIF",
            enable="no source hooks are needed: the gate (harness/gate.py) substitutes rex.asynchronous.{Future,ThreadPoolExecutor,RLock,deque,time} in the module namespace at run time and all observation goes through user-level probe nodes; REX_VERIF is reserved",
            baseline_off_cmd="cd /repo && /venv/bin/python -m pytest -ra -q -p no:cacheprovider --timeout=900 --continue-on-collection-errors",
            source_commits=[],
            add_only=True,
        ),
        engines=[dict(name="tlc+harness", path="/verif/check", serves_properties=claimed,
                      kind_free_text="TLA+ specifications in /verif/specs checked with TLC; Python harness in /verif/harness drives the real rex code (probe nodes, deterministic gate scheduler) and feeds traces to TLC")],
        checks=checks,
        notes="fix: commits in /repo (genuine defects found by the machinery) are listed in /verif/known_findings.json and DESIGN.md section 11",
        not_applicable=na,
    )
    return m


if __name__ == "__main__":
    from harness.checks import registry

    claimed = sorted(k for k in CHECKS if k in registry.CHECKS)
    m = build(claimed)
    with open(os.path.join(ROOT, "MANIFEST.json"), "w") as f:
        json.dump(m, f, indent=1)
    print("claimed", claimed)
