"""Async jobs: run call histories of one configuration on the real AsyncGraph (free-running or under the gate)
and return RexTrace traces plus lifecycle events (deadlock, exception, watchdog expiry)."""
import traceback

import numpy as onp

from . import arun, gate, trace


def features(t):
    """Which non-trivial situations does a trace contain (used for distinct_nontrivial counting)."""
    f = set()
    cfg = t["cfg"]
    for n, rows in t["steps"].items():
        P = cfg["nodes"][n]["period"]
        for r in rows:
            if r["delay"] > P:
                f.add("overrun")
            if r["ps"] not in (0, trace.NA):
                f.add("freq_drift")
            if r["start"] < r["sched"]:
                f.add("advance_before_schedule")
            if r["start"] > r["sched"] and r["tsmax"] == r["start"]:
                f.add("waited_for_blocking_input")
            if not cfg["nodes"][n]["freq"] and r["start"] == r["sched"] and r["seq"] > 0:
                f.add("phase_on_grid")
    for x, ms in t["msgs"].items():
        c = cfg["conns"][x]
        starts = {r["seq"]: r["start"] for r in t["steps"][c["dst"]]}
        prev = 0
        per_in = {}
        for m in ms:
            if m["recv"] == prev and m["delay"] not in c["cdist"]:
                f.add("fifo_clamp")
            prev = m["recv"]
            per_in[m["seq_in"]] = per_in.get(m["seq_in"], 0) + 1
            st = starts.get(m["seq_in"])
            if st is not None and st == m["recv"] and not c["blocking"]:
                f.add("tie_consumed_nonskip")
            if c["skip"] and not c["blocking"] and m["seq_in"] - 1 in starts and starts[m["seq_in"] - 1] == m["recv"]:
                f.add("tie_deferred_skip_buffer" if c["buffer"] else "tie_deferred_skip")
            if c["buffer"]:
                f.add("buffer")
                exp = m["seq_out"] * cfg["nodes"][c["src"]]["period"]
                if st is not None and m["seq_in"] - 1 in starts and m["recv"] <= starts[m["seq_in"] - 1]:
                    f.add("buffer_held_back")
        if any(v > 1 for v in per_in.values()):
            f.add("multi_message_group")
        if any(v > c["window"] for v in per_in.values()):
            f.add("group_exceeds_window")
        if c["blocking"]:
            f.add("blocking")
    return sorted(f)


def run_async_job(job):
    cfg = job["cfg"]
    S = None
    if job.get("gate"):
        S = gate.Scheduler(seed=0, policy="random", trace=bool(job.get("internal_trace")))
        gate.install(S)
    h = arun.AsyncHarness(cfg, rtf=job.get("rtf", 0), jit_step=job.get("jit_step", True), record=job.get("record"),
                          max_records=job.get("max_records"), seed=job.get("seed", 0),
                          use_callback=job.get("use_callback", True))
    init = h.initial()
    rngidx = trace.RngIndex(init["rng"])
    names = [n["name"] for n in cfg["nodes"]]
    rs = h.record_settings
    rflags = {n: dict(inputs=bool(rs["inputs"]), state=bool(rs["state"]), output=bool(rs["output"]), rng=bool(rs["rng"]))
              for n in names}
    out = dict(runs=[], initial=init)
    ref = None
    eps_next = 0
    for ri, run in enumerate(job["runs"]):
        rr = dict(traces=[], meta=[], events=[], history=run["history"], sched=run.get("sched"))
        out["runs"].append(rr)
        wd = None
        on_boundary = None
        if S is not None:
            sc = run.get("sched", {})
            S.new_schedule(seed=sc.get("seed", ri), policy=sc.get("policy", "random"), replay=sc.get("replay"), hold=sc.get("hold", 0))
            on_boundary = S.quiesce
            wd = lambda f, w: (S.call_boundary(w), f())[1]  # noqa: E731  (the user thread can be pre-empted between two API calls)
        else:
            to = job.get("call_timeout", 60)
            wd = lambda f, w: arun.call_with_watchdog(f, to, w)  # noqa: E731
        try:
            eps_done, cur = arun.run_history(h, run["history"], wd=wd, on_boundary=on_boundary, eps0=eps_next, fixed_gs_eps=job.get("fixed_gs_eps"), dirty=bool(job.get("dirty_init")),
                                             vary_params=bool(job.get("vary_params")))
        except gate.LogicalDeadlock as e:
            rr["events"].append(dict(kind="deadlock", detail=str(e), choices=list(S.choices), npoints=S.n_points))
            rr["fatal"] = True
            break
        except arun.Hang as e:
            rr["events"].append(dict(kind="watchdog", detail=str(e)))
            rr["fatal"] = True
            break
        except Exception as e:  # a lifecycle call raised
            rr["events"].append(dict(kind="exception", detail="".join(traceback.format_exception(type(e), e, e.__traceback__))[-3000:],
                                     choices=list(S.choices) if S else None))
            rr["fatal"] = True
            break
        if S is not None:
            rr["npoints"] = S.n_points
            rr["nchoices"] = len(S.choices)
            if job.get("keep_choices"):
                rr["choices"] = list(S.choices)
            if S.task_errors:
                rr["events"].append(dict(kind="task_error", detail=repr(S.task_errors[:3]), choices=list(S.choices)))
            if S.trace_on:
                rr["internal"] = list(S.trace)
        for ei, r in enumerate(eps_done):
            eps_next = r["eps"] + 1
            if "record" not in r:
                rr["events"].append(dict(kind="no_record", detail=r.get("record_error", "")))
                continue
            use_ref = ref if run.get("use_ref", True) and job.get("ref", False) else None
            cfg_e = cfg
            if "params_p" in r:
                import copy
                cfg_e = copy.deepcopy(cfg)
                for n in cfg_e["nodes"]:
                    n["p"] = r["params_p"][n["name"]]
            t = trace.build_trace(f"{job.get('id', 'job')}/r{ri}e{ei}", cfg_e, r, init, rngidx=rngidx, eps=r["gs_eps"], epsrec=r["eps"],
                                  rflags=rflags, check_log=job.get("check_log", True),
                                  ref=(trace.as_ref(use_ref) if use_ref is not None else None))
            if "params" in r.get("record", {}):
                t["recparams"] = dict(r["record"]["params"])
            if job.get("trim_log_to_rows"):
                for n in names:
                    t["log"][n] = [e for e in t["log"][n] if e["seq"] < len(t["steps"][n])]
            if ref is None and job.get("ref", False):
                ref = t
            rr["traces"].append(t)
            rr["meta"].append(dict(features=features(t), nrows={n: len(t["steps"][n]) for n in names}, calls=r["calls"],
                                   eps=r["eps"]))
        if cur is not None:
            eps_next = cur["eps"] + 1
    if S is not None:
        S.disable()
    return out


def warmup_exec_job(job):
    """C06, outside an episode: AsyncGraph.warmup() that was NOT asked to profile a node must not execute that node's step function (a step
    function executes once per tick of an episode and never otherwise).  profile is given as a dict naming only one node - the documented
    per-node form; the nodes it omits default to "do not profile" (seeded change C06-h made them default to True: ten executions per node)."""
    import jax

    import rex.asynchronous as ra

    from . import arun, gen, probes
    out = []
    cfg = job["cfg"]
    for js in (True, False):
        nodes = gen.build_nodes(cfg)
        g = ra.AsyncGraph(nodes=dict(nodes), supervisor=nodes[cfg["sup"]], clock=arun.Clock.SIMULATED, real_time_factor=0)
        gs0 = g.init(jax.random.PRNGKey(job.get("seed", 0)))
        probes.LOG.clear()
        g.warmup(gs0, jit_step=js, profile={cfg["nodes"][0]["name"]: False})
        jax.effects_barrier()
        log = probes.LOG.snapshot()
        out.append(dict(jit_step=js, executions=len(log), nodes=sorted({int(e["nid"]) for e in log})))
    return dict(results=out)
