"""Async jobs: run episodes of one configuration on the real AsyncGraph and return RexTrace traces."""
import jax
import numpy as onp

from . import arun, trace


def features(t):
    """Which non-trivial situations does a trace contain (used for distinct_nontrivial counting)."""
    f = set()
    cfg = t["cfg"]
    for n, rows in t["steps"].items():
        P = cfg["nodes"][n]["period"]
        for r in rows:
            if r["delay"] > P:
                f.add("overrun")
            if r["ps"] not in (0, trace.NA):
                f.add("freq_drift")
            if r["start"] < r["sched"]:
                f.add("advance_before_schedule")
            if r["start"] > r["sched"] and r["tsmax"] == r["start"]:
                f.add("waited_for_blocking_input")
    for x, ms in t["msgs"].items():
        c = cfg["conns"][x]
        starts = {r["seq"]: r["start"] for r in t["steps"][c["dst"]]}
        prev = 0
        per_in = {}
        for m in ms:
            if m["recv"] == prev and m["delay"] not in c["cdist"]:
                f.add("fifo_clamp")
            prev = m["recv"]
            per_in[m["seq_in"]] = per_in.get(m["seq_in"], 0) + 1
            st = starts.get(m["seq_in"])
            if st is not None and st == m["recv"]:
                f.add("tie_nonskip" if not c["skip"] else "tie_skip_consumed")
            if c["skip"] and m["seq_in"] - 1 in starts and starts[m["seq_in"] - 1] == m["recv"]:
                f.add("tie_skip_deferred")
            if c["buffer"]:
                f.add("buffer")
        if any(v > 1 for v in per_in.values()):
            f.add("multi_message_group")
        if any(v > c["window"] for v in per_in.values()):
            f.add("group_exceeds_window")
        if c["blocking"]:
            f.add("blocking")
    return sorted(f)


def run_async_job(job):
    cfg = job["cfg"]
    rec = job.get("record")
    h = arun.AsyncHarness(cfg, rtf=job.get("rtf", 0), jit_step=job.get("jit_step", True), record=rec,
                          max_records=job.get("max_records"), seed=job.get("seed", 0),
                          use_callback=job.get("use_callback", True))
    init = h.initial()
    rngidx = trace.RngIndex(init["rng"])
    names = [n["name"] for n in cfg["nodes"]]
    rs = h.record_settings
    rflags = {n: dict(inputs=bool(rs["inputs"]), state=bool(rs["state"]), output=bool(rs["output"]), rng=bool(rs["rng"]))
              for n in names}
    out = dict(traces=[], meta=[], initial=init)
    for ei, ep in enumerate(job["episodes"]):
        eps = ep.get("eps", ei)
        h.gs0 = h.gs0.replace(eps=onp.int32(eps))
        try:
            r = h.episode(style=ep.get("style", "step"), nsteps=ep.get("nsteps", 5), override=ep.get("override", False),
                          timeout=job.get("call_timeout", 60))
        except arun.Hang as e:
            out["hang"] = dict(episode=ei, call=str(e))
            break
        except TypeError as e:
            # get_record() on a connection that consumed no message at all (outside the properties, DESIGN 1)
            out["skipped"] = f"episode {ei}: get_record TypeError: {e}"
            break
        t = trace.build_trace(f"{job.get('id', 'job')}/e{ei}", cfg, r, init, rngidx=rngidx, eps=eps, epsrec=ei, rflags=rflags,
                              check_log=job.get("check_log", True))
        out["traces"].append(t)
        out["meta"].append(dict(features=features(t), nrows={n: len(t["steps"][n]) for n in names},
                                style=r["style"], nsteps=r["nsteps"], override=r["override"]))
    return out
