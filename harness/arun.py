"""Run episodes of the threaded runtime (rex.asynchronous.AsyncGraph) with probe nodes and project
what is observable (episode record, probe log, returned supervisor step states) to integer tables."""
import threading
import time

import jax
import numpy as onp

import rex.asynchronous as ra
from rex.constants import Clock

from . import probes
from .gen import build_nodes
from .probes import to_grid


class Hang(Exception):
    pass


def call_with_watchdog(fn, timeout, what):
    """Run fn() in a helper thread; raise Hang if it does not return within timeout seconds.
    Only used by free-running (un-gated) drivers."""
    res = {}

    def target():
        try:
            res["v"] = fn()
        except BaseException as e:  # noqa
            res["e"] = e

    t = threading.Thread(target=target, daemon=True)
    t.start()
    t.join(timeout)
    if t.is_alive():
        raise Hang(what)
    if "e" in res:
        raise res["e"]
    return res.get("v")


def project_record(rec, cfg):
    """EpisodeRecord -> {"steps": {node: [..]}, "msgs": {"out>in": [..]}} with integer grid times."""
    out = {"steps": {}, "msgs": {}}
    for name, nr in rec.nodes.items():
        s = nr.steps
        rows = []
        n = len(onp.asarray(s.seq))
        for j in range(n):
            rows.append(dict(
                eps=int(s.eps[j]), seq=int(s.seq[j]),
                sched=to_grid(s.ts_scheduled[j], "ts_scheduled"), tsmax=to_grid(s.ts_max[j], "ts_max"),
                start=to_grid(s.ts_start[j], "ts_start"), end=to_grid(s.ts_end[j], "ts_end"),
                delay=to_grid(s.delay[j], "delay"), ps=to_grid(s.phase_scheduled[j], "phase_scheduled"),
                endprev=to_grid(s.ts_end_prev[j], "ts_end_prev"),
                sent_seq=int(s.sent.seq[j]), sent_ts=to_grid(s.sent.ts[j], "sent.ts"),
            ))
            r = rows[-1]
            if s.rng is not None:
                r["rng"] = tuple(int(v) for v in onp.asarray(s.rng[j]).reshape(-1))
            if s.state is not None:
                r["h"] = int(s.state.h[j])
            if s.output is not None and j < len(onp.asarray(s.output.nid)):
                r["out"] = dict(nid=int(s.output.nid[j]), eps=int(s.output.eps[j]), seq=int(s.output.seq[j]),
                                h=int(s.output.h[j]))
            if s.inputs is not None:
                r["inputs"] = {}
                for iname, inp in s.inputs.items():
                    r["inputs"][iname] = dict(
                        seq=[int(v) for v in onp.asarray(inp.seq[j])],
                        ts_sent=[to_grid(v) for v in onp.asarray(inp.ts_sent[j])],
                        ts_recv=[to_grid(v) for v in onp.asarray(inp.ts_recv[j])],
                        nid=[int(v) for v in onp.asarray(inp.data.nid[j])],
                        eps=[int(v) for v in onp.asarray(inp.data.eps[j])],
                        dseq=[int(v) for v in onp.asarray(inp.data.seq[j])],
                        h=[int(v) for v in onp.asarray(inp.data.h[j])],
                    )
        out["steps"][name] = rows
        if nr.params is not None:
            out.setdefault("params", {})[name] = int(nr.params.p)
        for oname, ir in (nr.inputs or {}).items():
            m = ir.messages
            rows = []
            for j in range(len(onp.asarray(m.seq_out))):
                rows.append(dict(seq_out=int(m.seq_out[j]), seq_in=int(m.seq_in[j]),
                                 sent=to_grid(m.ts_sent[j], "ts_sent"), recv=to_grid(m.ts_recv[j], "ts_recv"),
                                 delay=to_grid(m.delay[j], "msg.delay")))
            out["msgs"][f"{oname}>{name}"] = rows
    return out


def project_log(entries):
    """Probe log -> list of integer dicts (times on grid)."""
    out = []
    for e in entries:
        d = dict(nid=e["nid"], eps=e["eps"], seq=e["seq"], ts=to_grid(e["ts"], "probe ts"), rng=e["rng"],
                 p=e["p"], h=e["h"], h_out=e["h_out"], inputs={})
        for k, v in e["inputs"].items():
            d["inputs"][k] = dict(seq=v["seq"], ts_sent=[to_grid(x) for x in v["ts_sent"]],
                                  ts_recv=[to_grid(x) for x in v["ts_recv"]], nid=v["nid"], eps=v["eps"],
                                  dseq=v["dseq"], h=v["h"])
        out.append(d)
    return out


def project_ss(ss):
    """Supervisor StepState returned by reset/step -> integer dict."""
    d = dict(eps=int(ss.eps), seq=int(ss.seq), ts=to_grid(ss.ts, "ss.ts"), h=int(ss.state.h),
             rng=tuple(int(v) for v in onp.asarray(ss.rng).reshape(-1)), inputs={})
    for k, inp in ss.inputs.items():
        d["inputs"][k] = dict(seq=[int(v) for v in onp.asarray(inp.seq)],
                              ts_sent=[to_grid(v) for v in onp.asarray(inp.ts_sent)],
                              ts_recv=[to_grid(v) for v in onp.asarray(inp.ts_recv)],
                              nid=[int(v) for v in onp.asarray(inp.data.nid)],
                              eps=[int(v) for v in onp.asarray(inp.data.eps)],
                              dseq=[int(v) for v in onp.asarray(inp.data.seq)],
                              h=[int(v) for v in onp.asarray(inp.data.h)])
    return d


class AsyncHarness:
    """One AsyncGraph with probe nodes; runs episodes and projects the observable results."""

    def __init__(self, cfg, rtf=0, jit_step=True, record=None, max_records=None, seed=0, use_callback=True,
                 clock=Clock.SIMULATED):
        self.cfg = cfg
        self.nodes = build_nodes(cfg, use_callback=use_callback)
        self.sup = self.nodes[cfg["sup"]]
        self.graph = ra.AsyncGraph(nodes=dict(self.nodes), supervisor=self.sup, clock=clock, real_time_factor=rtf)
        rec = dict(params=True, rng=True, inputs=True, state=True, output=True)
        if record is not None:
            rec.update(record)
        kw = dict(rec)
        if max_records is not None:
            kw["max_records"] = max_records
        self.graph.set_record_settings(**kw)
        self.record_settings = rec
        self.gs0 = self.graph.init(jax.random.PRNGKey(seed))
        self.graph.warmup(self.gs0, jit_step=jit_step)
        self.jit_step = jit_step
        self.seed = seed

    def initial(self):
        """What the law needs to know about the initial graph state."""
        gs = self.gs0
        return dict(
            rng={n: tuple(int(v) for v in onp.asarray(gs.rng[n]).reshape(-1)) for n in self.nodes},
            h={n: int(gs.state[n].h) for n in self.nodes},
            p={n: int(gs.params[n].p) for n in self.nodes},
        )

    def episode(self, style="step", nsteps=5, override=False, stop=True, get_record=True, timeout=None):
        """Run one episode. style: 'run' (run()*nsteps) or 'step' (reset(); step()*nsteps).
        Returns dict(record=..., log=..., sss=[...])."""
        g = self.graph
        probes.LOG.clear()
        wd = (lambda f, w: call_with_watchdog(f, timeout, w)) if timeout else (lambda f, w: f())
        sss = []
        gs = self.gs0
        if style == "run":
            for i in range(nsteps):
                gs = wd(lambda: g.run(gs), f"run#{i}")
        else:
            gs, ss = wd(lambda: g.reset(gs), "reset")
            sss.append(project_ss(ss))
            for i in range(nsteps):
                if override:
                    # override the supervisor with its own result (computed by hand, not logged)
                    sup = self.sup
                    was = sup.do_log
                    sup.do_log = False
                    try:
                        new_ss, out = sup.step(ss)
                    finally:
                        sup.do_log = was
                    gs, ss = wd(lambda: g.step(gs, new_ss, out), f"step#{i}")
                else:
                    gs, ss = wd(lambda: g.step(gs), f"step#{i}")
                sss.append(project_ss(ss))
        if stop:
            wd(lambda: g.stop(), "stop")
        res = dict(sss=sss, style=style, nsteps=nsteps, override=override)
        if get_record and stop:
            rec = g.get_record()
            res["record_raw"] = rec
            res["record"] = project_record(rec, self.cfg)
        # let late callbacks drain
        jax.effects_barrier()
        res["log"] = project_log(probes.LOG.snapshot())
        return res


def run_history(h: "AsyncHarness", history, wd=None, on_boundary=None, eps0=0, fixed_gs_eps=None, dirty=False, vary_rng=False, vary_params=False):
    """Execute a call history on the harness' AsyncGraph.

    history: list of calls: "reset", "step", "step!" (override with own result), "run", "stop".
    Returns list of episode results (one per explicit "stop" that ended a started episode) in the shape of
    AsyncHarness.episode(), each with 'calls' (the calls of that episode).
    wd(fn, what) wraps each API call (watchdog in free-running mode); on_boundary() is called after each stop
    (the gate uses it to quiesce)."""
    g = h.graph
    wd = wd or (lambda f, w: f())
    out = []
    cur = None  # current episode bookkeeping
    gs = None
    ss = None
    eps = eps0
    ncalls = 0

    def begin(style):
        nonlocal cur, eps
        if cur is not None:
            eps += 1  # the abandoned episode consumed an episode number (start() was called for it)
        probes.LOG.clear()
        gs_eps = eps if fixed_gs_eps is None else fixed_gs_eps
        h.gs0 = h.gs0.replace(eps=onp.int32(gs_eps))
        if vary_rng:
            # every episode starts from its own per-node rng (so sampled delays, hence timings and compiled run masks, differ between the
            # episodes of one experiment); the episode keeps its initial graph state for the compiled replay (C01)
            from flax.core import FrozenDict
            if not hasattr(h, "gs0_base_rng"):
                h.gs0_base_rng = h.gs0.rng
            h.gs0 = h.gs0.replace(rng=FrozenDict({k: jax.random.fold_in(v, eps) for k, v in h.gs0_base_rng.items()}))
        if dirty and eps % 2 == 1:
            # a user-supplied initial graph state need not carry seq 0 / ts 0 (e.g. the final state of an earlier episode);
            # the runtime stamps every step with its own tick and start time
            from flax.core import FrozenDict
            h.gs0 = h.gs0.replace(seq=FrozenDict({k: onp.int32(7 + 3 * i) for i, k in enumerate(sorted(h.nodes))}),
                                  ts=FrozenDict({k: onp.float32(11.0 + i) for i, k in enumerate(sorted(h.nodes))}))
        elif dirty:
            from flax.core import FrozenDict
            h.gs0 = h.gs0.replace(seq=FrozenDict({k: onp.int32(0) for k in h.nodes}), ts=FrozenDict({k: onp.float32(0.0) for k in h.nodes}))
        if vary_params:
            # every episode is given other params (system identification / domain randomisation loops do this): p + 3 * episode
            from flax.core import FrozenDict
            if not hasattr(h, "gs0_base_p"):
                h.gs0_base_p = {k: int(onp.asarray(v.p)) for k, v in h.gs0.params.items()}
            h.gs0 = h.gs0.replace(params=FrozenDict({k: probes.ProbeParams(p=onp.int32(v + 3 * eps)) for k, v in h.gs0_base_p.items()}))
        cur = dict(style=style, nsteps=0, override=False, sss=[], calls=[], eps=eps, gs_eps=gs_eps, noexec_ticks=[])
        if vary_params:
            cur["params_p"] = {k: v + 3 * eps for k, v in h.gs0_base_p.items()}
        if vary_rng:
            cur["gs0"] = h.gs0

    for call in history:
        ncalls += 1
        if call == "reset":
            begin("step")
            cur["calls"].append(call)
            gs, ss = wd(lambda: g.reset(h.gs0), f"reset@{ncalls}")
            cur["sss"].append(project_ss(ss))
        elif call in ("step", "step!"):
            assert cur is not None and cur["style"] == "step", "protocol: step only after reset"
            cur["calls"].append(call)
            if call == "step!":
                sup = h.sup
                was = sup.do_log
                sup.do_log = False
                try:
                    new_ss, o = sup.step(ss)
                finally:
                    sup.do_log = was
                cur["noexec_ticks"].append(cur["nsteps"])
                _gs, _ss = gs, ss
                gs, ss = wd(lambda: g.step(_gs, new_ss, o), f"step!@{ncalls}")
            else:
                _gs = gs
                gs, ss = wd(lambda: g.step(_gs), f"step@{ncalls}")
            cur["nsteps"] += 1
            cur["sss"].append(project_ss(ss))
        elif call == "run":
            if cur is None or cur["style"] != "run":
                begin("run")
                gs = h.gs0
            cur["calls"].append(call)
            _gs = gs
            gs = wd(lambda: g.run(_gs), f"run@{ncalls}")
            cur["nsteps"] += 1
        elif call == "stop":
            wd(lambda: g.stop(), f"stop@{ncalls}")
            if on_boundary:
                on_boundary()
            if cur is not None:
                cur["calls"].append(call)
                jax.effects_barrier()
                try:
                    rec = g.get_record()
                    cur["record_raw"] = rec
                    cur["record"] = project_record(rec, h.cfg)
                except TypeError as e:  # connection that consumed nothing (outside the properties)
                    cur["record_error"] = str(e)
                # steps of an abandoned earlier episode may still finish while the next start() stops them; they carry
                # the earlier episode number in their step state, so they are told apart by it
                cur["log"] = [e for e in project_log(probes.LOG.snapshot()) if e["eps"] == cur["gs_eps"]]
                out.append(cur)
                eps += 1
                cur = None
        else:
            raise ValueError(call)
    return out, cur
