"""Build RexTrace traces (JSON-able dicts) from a config and the projected observables of one episode."""
import jax
import numpy as onp

from . import probes

NA = -999999


def conn_id(c):
    return f"{c['out']}>{c['in']}"


def tla_cfg(cfg, eps=0):
    """Config in the shape RexLaw expects."""
    return dict(
        nodes={n["name"]: dict(nid=n["nid"], period=n["period"], delay=n["delay"], advance=bool(n.get("advance", False)),
                               freq=(n.get("sched", "F") == "F"), p=n.get("p", 0), cdist=list(n["cdist"]))
               for n in cfg["nodes"]},
        conns={conn_id(c): dict(src=c["out"], dst=c["in"], blocking=bool(c["blocking"]), skip=bool(c["skip"]),
                                buffer=(c.get("jitter", "L") == "B"), window=int(c["window"]), delay=c["delay"],
                                cdist=list(c["cdist"]))
               for c in cfg["conns"]},
        sup=cfg["sup"],
        eps=int(eps),
    )


def input_name_map(cfg):
    """node -> {input_name -> conn id}"""
    m = {}
    for c in cfg["conns"]:
        m.setdefault(c["in"], {})[c.get("name", c["out"])] = conn_id(c)
    for n in cfg["nodes"]:
        m.setdefault(n["name"], {})
    return m


def win_entries(inp):
    """Projected InputState dict -> list of window entries (negative seq normalised to -1)."""
    out = []
    for j in range(len(inp["seq"])):
        s = inp["seq"][j]
        out.append(dict(seq=(s if s >= 0 else -1), sent=inp["ts_sent"][j], recv=inp["ts_recv"][j], nid=inp["nid"][j],
                        eps=inp["eps"][j], dseq=inp["dseq"][j], h=inp["h"][j]))
    return out


class RngIndex:
    """Maps a logged rng key to its index in the split chain of the node's initial key (-1 if absent)."""

    def __init__(self, initial_rng, n=400, limit=204800):
        self.maps, self.last, self.limit = {}, {}, limit
        for name, words in initial_rng.items():
            ch = probes.rng_chain(onp.array(words, dtype=onp.uint32), n)
            self.maps[name] = {k: i for i, k in enumerate(ch)}
            self.last[name] = ch[-1]

    def idx(self, name, key):
        key = tuple(key)
        m = self.maps[name]
        # a never-blocking source node can run thousands of steps ahead under an unfair schedule: extend the chain on demand
        while key not in m and len(m) < self.limit:
            n0 = len(m)
            ch = probes.rng_chain(onp.array(self.last[name], dtype=onp.uint32), n0 + 1)   # ch[0] is the current last key
            for i, k in enumerate(ch[1:]):
                m.setdefault(k, n0 + i)
            self.last[name] = ch[-1]
        return m.get(key, -1)


def build_trace(tid, cfg, res, initial, rngidx=None, eps=0, epsrec=0, rflags=None, check_log=True, ref=None,
                max_rows=None):
    """res: result of AsyncHarness.episode (projected). Returns the trace dict."""
    names = [n["name"] for n in cfg["nodes"]]
    nid2name = {n["nid"]: n["name"] for n in cfg["nodes"]}
    imap = input_name_map(cfg)
    rngidx = rngidx or RngIndex(initial["rng"])
    rec = res["record"]
    rflags = rflags or {n: dict(inputs=True, state=True, output=True, rng=True) for n in names}
    steps = {}
    for n in names:
        rows = []
        for r in rec["steps"].get(n, []):
            row = dict(seq=r["seq"], eps=r["eps"], sched=r["sched"], tsmax=r["tsmax"], start=r["start"], end=r["end"],
                       delay=r["delay"], ps=r["ps"], endprev=r["endprev"], sent_seq=r["sent_seq"], sent_ts=r["sent_ts"],
                       h=r.get("h", NA), rngi=(rngidx.idx(n, r["rng"]) if "rng" in r else NA),
                       out_h=(r["out"]["h"] if "out" in r else NA), wins={})
            if "inputs" in r:
                for iname, inp in r["inputs"].items():
                    row["wins"][imap[n][iname]] = win_entries(inp)
            else:
                for iname, cid in imap[n].items():
                    row["wins"][cid] = []
            rows.append(row)
        steps[n] = rows
    msgs = {}
    for c in cfg["conns"]:
        cid = conn_id(c)
        msgs[cid] = [dict(m) for m in rec["msgs"].get(cid, [])]
    log = {n: [] for n in names}
    for e in res["log"]:
        n = nid2name[e["nid"]]
        log[n].append(dict(seq=e["seq"], eps=e["eps"], ts=e["ts"], h=e["h"], h_out=e["h_out"], p=e["p"],
                           rngi=rngidx.idx(n, e["rng"]),
                           wins={imap[n][k]: win_entries(v) for k, v in e["inputs"].items()}))
    sup = cfg["sup"]
    obs = []
    for o in res.get("sss", []):
        obs.append(dict(seq=o["seq"], ts=o["ts"], h=o["h"], rngi=rngidx.idx(sup, o["rng"]),
                        wins={imap[sup][k]: win_entries(v) for k, v in o["inputs"].items()}))
    # ticks of the supervisor that were not executed by rex: overridden ones and the pending one cancelled by stop()
    nsteps = res["nsteps"]
    nrows_sup = len(steps[sup])
    noexec = {n: [] for n in names}
    if "noexec_ticks" in res:
        noexec[sup] = sorted(set(res["noexec_ticks"]) | set(range(nsteps, nrows_sup)))
    elif res.get("override"):
        noexec[sup] = list(range(0, nrows_sup))
    else:
        noexec[sup] = list(range(nsteps, nrows_sup))
    cancelled = {n: [] for n in names}
    cancelled[sup] = list(range(nsteps, nrows_sup))
    t = dict(id=str(tid), cfg=tla_cfg(cfg, eps=eps), epsrec=int(epsrec), steps=steps, msgs=msgs, log=log, obs=obs,
             noexec=noexec, cancelled=cancelled, rflags=rflags, flags=dict(log=bool(check_log)))
    if ref is not None:
        t["ref"] = ref
    return t


def as_ref(trace):
    """Reference tables (steps, msgs) of a trace, for the Deterministic clauses of later traces of the same
    configuration and initial state."""
    return dict(steps=trace["steps"], msgs=trace["msgs"])
