"""Worker-side jobs for the compiled runtime."""
import random

import jax
import numpy as onp

from rex.graph import Graph

from . import compiled, gen


def _graphs_for(job):
    cfg = job["cfg"]
    if job["source"] == "record":
        g_raw, eps, h = compiled.record_graphs(cfg, job.get("seed", 0), job["histories"], jit_step=job.get("jit_step", True))
        return g_raw, eps, h
    g_raw, nodes = compiled.generated_graphs(cfg, job.get("seed", 0), job["ts_max"], job["num_episodes"])
    return g_raw, None, None


def static_job(job):
    """Build Graph instances for every (mode, prune) and return their RexSchedule traces."""
    cfg = job["cfg"]
    g_raw, eps, _ = _graphs_for(job)
    n_eps = next(iter(g_raw.vertices.values())).seq.shape[0]
    out = dict(traces=[], meta=[])
    S_prev = None
    for mode, prune, opts in job["modes"]:
        nodes = gen.build_nodes(cfg, log=False)
        kw = {}
        if opts.get("s_init") and S_prev is not None and mode == "mcs":
            kw["S_init"] = S_prev
        if "extra_padding" in opts:
            kw["extra_padding"] = opts["extra_padding"]
        G = Graph(nodes=dict(nodes), supervisor=nodes[cfg["sup"]], graphs_raw=g_raw, supergraph=compiled.MODES[mode], prune=prune,
                  progress_bar=False, **kw)
        if mode == "mcs":
            S_prev = G.S
        gs = G.init(jax.random.PRNGKey(0))
        buf = compiled.buffer_sizes_of(gs)
        for e in range(n_eps):
            t = compiled.project_static(G, cfg, e, buf, f"{job.get('id', 'job')}/{mode}/{'prune' if prune else 'noprune'}{'/sinit' if 'S_init' in kw else ''}/e{e}", prune)
            out["traces"].append(t)
            out["meta"].append(dict(features=compiled.schedule_features(t), mode=mode, prune=prune, slots=sum(len(g["slots"]) for g in t["gens"]),
                                    H=t["H"], buf=t["buf"], nverts={k: len(v) for k, v in t["verts"].items()}))
    return out


def _rng_index(gs0, cfg, n=400):
    from . import trace

    init_rng = {n_["name"]: tuple(int(v) for v in onp.asarray(gs0.rng[n_["name"]]).reshape(-1)) for n_ in cfg["nodes"]}
    return trace.RngIndex(init_rng, n=n)


def run_job(job):
    """Build one Graph per (mode, prune), execute call histories on it and return RexSchedule + RexRun traces.

    job: cfg, source ('record'|'generate'), modes, runs: [{eps, step0, history, jit, record_flags?}], match_async (C01)."""
    from . import probes, trace

    cfg = job["cfg"]
    g_raw, eps_async, h_async = _graphs_for(job)
    n_eps = next(iter(g_raw.vertices.values())).seq.shape[0]
    out = dict(static=[], runs=[], meta=[])
    for mode, prune, opts in job["modes"]:
        nodes = gen.build_nodes(cfg, log=True)
        kw = {}
        if "extra_padding" in opts:
            kw["extra_padding"] = opts["extra_padding"]
        G = Graph(nodes=dict(nodes), supervisor=nodes[cfg["sup"]], graphs_raw=g_raw, supergraph=compiled.MODES[mode], prune=prune,
                  progress_bar=False, **kw)
        tagm = f"{job.get('id', 'job')}/{mode}/{'prune' if prune else 'noprune'}"
        runner = {True: compiled.CompiledRunner(G, nodes, cfg, jit=True), False: compiled.CompiledRunner(G, nodes, cfg, jit=False)}
        statics = {}
        for ri, run in enumerate(job["runs"]):
            e = run.get("eps", 0) % n_eps
            gs0 = G.init(jax.random.PRNGKey(job.get("seed", 0)), starting_eps=run.get("eps_arg", e), starting_step=run.get("step0", 0))
            if job.get("match_async") and h_async is not None:
                # same initial per-node rng, params and state as the threaded runtime used (C01)
                a0 = h_async.gs0
                gs0 = gs0.replace(rng=a0.rng, params=a0.params, state=a0.state, eps=gs0.eps)
                gs0 = gs0.replace(inputs=a0.inputs)
            e_eff = int(onp.asarray(gs0.eps))
            if e_eff not in statics:
                statics[e_eff] = compiled.project_static(G, cfg, e_eff, compiled.buffer_sizes_of(gs0), f"{tagm}/e{e_eff}", prune)
                out["static"].append(statics[e_eff])
            st = statics[e_eff]
            rngidx = _rng_index(gs0, cfg)
            rf = run.get("record")
            gs_in = gs0
            if rf is not None and any(n["name"] not in gs0.buffer for n in cfg["nodes"]):
                rf = None  # init_record cannot be used when a node kind is pruned out of the supergraph (outside the properties)
                out.setdefault("notes", []).append("record skipped: a node kind is not part of the supergraph")
            if rf is not None:
                gs_in = G.init_record(gs0, **rf)
            probes.LOG.clear()
            rn = runner[bool(run.get("jit", True))]
            if rf is not None:
                # records carry NodeInfo (with array-valued delay distributions) as static pytree metadata; a second, equal-looking
                # record in the same process makes jax's cache lookup compare arrays with == and raise. Start from empty caches.
                jax.clear_caches()
                rn = compiled.CompiledRunner(G, nodes, cfg, jit=bool(run.get("jit", True)))
            gs_f = rn.exec_history(gs_in, run["history"])
            log = compiled.arun.project_log(probes.LOG.snapshot())
            rec = None
            if rf is not None:
                rec = compiled.project_record_compiled(gs_f.aux["record"], cfg, rngidx)
            ref = None
            if job.get("match_async") and eps_async is not None and e_eff < len(eps_async):
                ar = eps_async[e_eff]
                nid2name = {n["nid"]: n["name"] for n in cfg["nodes"]}
                ref = {n["name"]: [] for n in cfg["nodes"]}
                for le in compiled.log_for_run(ar["log"], cfg, rngidx):
                    ref[le["kind"]].append(le)
            t = compiled.project_run(st, cfg, gs0, run["history"], log, gs_f, rngidx, f"{tagm}/r{ri}", rec=rec, ref=ref)
            out["runs"].append(t)
            out["meta"].append(dict(mode=mode, prune=prune, history=run["history"], jit=bool(run.get("jit", True)), nlog=len(log), eps=e_eff,
                                    step0=int(onp.asarray(gs0.step)), P=st["H"]))
    return out
