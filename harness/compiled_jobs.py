"""Worker-side jobs for the compiled runtime."""
import random

import jax
import numpy as onp

from networkx import NetworkXUnfeasible
from rex.artificial import generate_graphs
from rex.graph import Graph

from . import compiled, gen


def _graphs_for(job):
    cfg = job["cfg"]
    if job["source"] == "record":
        g_raw, eps, h = compiled.record_graphs(cfg, job.get("seed", 0), job["histories"], jit_step=job.get("jit_step", True))
        return g_raw, eps, h
    g_raw, nodes = compiled.generated_graphs(cfg, job.get("seed", 0), job["ts_max"], job["num_episodes"])
    return g_raw, None, None


def _init_refused(G):
    """rex refuses to initialise a compiled graph in which some node's output is never read inside the horizon ("Buffer size for node
    `x` is 0."): such an instance cannot be run at all (outside the properties, DESIGN 10.4). Returns the message or None."""
    try:
        G.init(jax.random.PRNGKey(0))
    except AssertionError as e:
        if "Buffer size" in str(e):
            return str(e)
        raise
    return None


def static_job(job):
    """Build Graph instances for every (mode, prune) and return their RexSchedule traces."""
    cfg = job["cfg"]
    try:
        g_raw, eps, _ = _graphs_for(job)
    except compiled.NoRecord as e:
        return dict(traces=[], meta=[], skipped=str(e))
    n_eps = next(iter(g_raw.vertices.values())).seq.shape[0]
    out = dict(traces=[], meta=[])
    S_prev = None
    for mode, prune, opts in job["modes"]:
        nodes = gen.build_nodes(cfg, log=False)
        kw = {}
        if opts.get("s_init") and S_prev is not None and mode == "mcs":
            kw["S_init"] = S_prev
        if "extra_padding" in opts:
            kw["extra_padding"] = opts["extra_padding"]
        try:
            G = Graph(nodes=dict(nodes), supervisor=nodes[cfg["sup"]], graphs_raw=g_raw, supergraph=compiled.MODES[mode], prune=prune,
                      progress_bar=False, **kw)
        except (KeyError, NetworkXUnfeasible, AssertionError) as e:  # rex or the external supergraph library refuse to compile the instance
            # Timings.get_buffer_sizes raises KeyError when a node kind is absent from the supergraph although a present kind has
            # an input from it (all its window entries are -1): compilation of such a graph fails (outside the properties, DESIGN 10.4)
            out.setdefault("notes", []).append(f"{mode}/{prune}: Graph() raised {type(e).__name__} {e}")
            continue
        if mode == "mcs":
            S_prev = G.S
        refused = _init_refused(G)
        if refused:
            out.setdefault("notes", []).append(f"{mode}/{prune}: Graph.init() refused: {refused} (DESIGN 10.4)")
            continue
        gs = G.init(jax.random.PRNGKey(0))
        buf = compiled.buffer_sizes_of(gs)
        for e in range(n_eps):
            t = compiled.project_static(G, cfg, e, buf, f"{job.get('id', 'job')}/{mode}/{'prune' if prune else 'noprune'}{'/sinit' if 'S_init' in kw else ''}/e{e}", prune)
            out["traces"].append(t)
            out["meta"].append(dict(features=compiled.schedule_features(t), mode=mode, prune=prune, slots=sum(len(g["slots"]) for g in t["gens"]),
                                    H=t["H"], buf=t["buf"], nverts={k: len(v) for k, v in t["verts"].items()}))
    return out


def _rng_index(gs0, cfg, n=400):
    from . import trace

    init_rng = {n_["name"]: tuple(int(v) for v in onp.asarray(gs0.rng[n_["name"]]).reshape(-1)) for n_ in cfg["nodes"]}
    return trace.RngIndex(init_rng, n=n)


def run_job(job):
    """Build one Graph per (mode, prune), execute call histories on it and return RexSchedule + RexRun traces.

    job: cfg, source ('record'|'generate'), modes, runs: [{eps, step0, history, jit, record_flags?}], match_async (C01)."""
    from . import probes, trace

    cfg = job["cfg"]
    try:
        g_raw, eps_async, h_async = _graphs_for(job)
    except compiled.NoRecord as e:
        return dict(static=[], runs=[], meta=[], skipped=str(e))
    n_eps = next(iter(g_raw.vertices.values())).seq.shape[0]
    out = dict(static=[], runs=[], meta=[])
    for mode, prune, opts in job["modes"]:
        nodes = gen.build_nodes(cfg, log=True)
        kw = {}
        if "extra_padding" in opts:
            kw["extra_padding"] = opts["extra_padding"]
        if opts.get("skip_nonsup") is not None:  # Graph(skip=[kind]): the n-th non-supervisor node never executes
            cands = [n["name"] for n in cfg["nodes"] if n["name"] != cfg["sup"]]
            opts = dict(opts, skip=[cands[opts["skip_nonsup"] % len(cands)]])
        if opts.get("skip"):
            kw["skip"] = list(opts["skip"])
        if opts.get("consume_nonsup") is not None:
            # one non-supervisor node returns "consumed" inputs from its step function: execution is unchanged (the compiled runtime rebuilds every
            # window from the rings), and its record still holds the inputs each step was CALLED with (seeded change C13-h recorded the returned ones)
            cands = [n["name"] for n in cfg["nodes"] if n["name"] != cfg["sup"] and any(c["in"] == n["name"] for c in cfg["conns"])]
            if cands:
                nodes[cands[opts["consume_nonsup"] % len(cands)]].consume_inputs = True
        try:
            G = Graph(nodes=dict(nodes), supervisor=nodes[cfg["sup"]], graphs_raw=g_raw, supergraph=compiled.MODES[mode], prune=prune,
                      progress_bar=False, **kw)
        except (KeyError, NetworkXUnfeasible, AssertionError) as e:  # rex or the external supergraph library refuse to compile the instance
            out.setdefault("notes", []).append(f"{mode}/{prune}: Graph() raised {type(e).__name__} {e} (DESIGN 10.4)")
            continue
        refused = _init_refused(G)
        if refused:
            out.setdefault("notes", []).append(f"{mode}/{prune}: Graph.init() refused: {refused} (DESIGN 10.4)")
            continue
        tagm = f"{job.get('id', 'job')}/{mode}/{'prune' if prune else 'noprune'}{'/skip_' + opts['skip'][0] if opts.get('skip') else ''}"
        runner = {True: compiled.CompiledRunner(G, nodes, cfg, jit=True), False: compiled.CompiledRunner(G, nodes, cfg, jit=False)}
        statics = {}
        for ri, run in enumerate(job["runs"]):
            e = run.get("eps", 0) % n_eps
            gs0 = G.init(jax.random.PRNGKey(job.get("seed", 0)), starting_eps=run.get("eps_arg", e), starting_step=run.get("step0", 0))
            if job.get("match_async") and h_async is not None:
                # same initial per-node rng, params and state as the threaded runtime used (C01)
                a0 = eps_async[e % len(eps_async)].get("gs0", h_async.gs0) if eps_async else h_async.gs0   # the episode's own initial graph state
                gs0 = gs0.replace(rng=a0.rng, params=a0.params, state=a0.state, eps=gs0.eps)
                gs0 = gs0.replace(inputs=a0.inputs)
            e_eff = int(onp.asarray(gs0.eps))
            if e_eff not in statics:
                statics[e_eff] = compiled.project_static(G, cfg, e_eff, compiled.buffer_sizes_of(gs0), f"{tagm}/e{e_eff}", prune)
                out["static"].append(statics[e_eff])
            st = statics[e_eff]
            rngidx = _rng_index(gs0, cfg)
            rf = run.get("record")
            gs_in = gs0
            if rf is not None and any(n["name"] not in gs0.buffer for n in cfg["nodes"]):
                rf = None  # init_record cannot be used when a node kind is pruned out of the supergraph (outside the properties)
                out.setdefault("notes", []).append("record skipped: a node kind is not part of the supergraph")
            if rf is not None:
                gs_in = G.init_record(gs0, **rf)
            # rex's horizon is G.max_steps = (number of partitions - 1) runs: the step counter is clipped to the last partition index, so the last
            # partition cannot be completed by run()/step() (its supervisor step would use the previous partition's slot); "rollout:99" = that horizon
            hist = [f"rollout:{min(int(c.split(':')[1]), G.max_steps - int(onp.asarray(gs0.step)))}" if c.startswith("rollout:") else c for c in run["history"]]
            hist = [c for c in hist if c != "rollout:0"] or ["reset"]
            if "gymfull" not in hist:
                # never leave rex's horizon: at most max_steps partitions are begun (the step counter is clipped beyond, the last partition would be
                # executed again and overwrite ring slots that its own readers still need - not a behaviour any property speaks about)
                budget, kept = G.max_steps - int(onp.asarray(gs0.step)), []
                for c in hist:
                    need = int(c.split(":")[1]) if c.startswith("rollout:") else (0 if c in ("gymstale",) else 1)
                    if need > budget:
                        break
                    budget -= need
                    kept.append(c)
                hist = kept or ["reset"]
            if "gymstale" in hist:
                # a stateless agent inside the horizon: every other step() is overridden with the SAME (stale) step state and output
                k = hist.index("gymstale")
                nst = max(G.max_steps - 1 - int(onp.asarray(gs0.step)), 0)
                hist = hist[:k] + ["reset"] + [("step" if (j % 3 == 2) else "stepx") for j in range(nst)] + hist[k + 1:]
            if "gymfull" in hist:
                # a full-length gym-style episode: reset() + max_steps x step(); the last step() runs the non-supervisor part of the LAST partition
                # (the only way to reach it: rollouts and run() stop one partition earlier)
                k = hist.index("gymfull")
                nst = G.max_steps - int(onp.asarray(gs0.step))
                hist = hist[:k] + ["reset"] + [("stepo" if (j % 3 == 2) else "step") for j in range(max(nst, 0))] + hist[k + 1:]
            probes.LOG.clear()
            rn = runner[bool(run.get("jit", True))]
            if rf is not None:
                # records carry NodeInfo (with array-valued delay distributions) as static pytree metadata; a second, equal-looking
                # record in the same process makes jax's cache lookup compare arrays with == and raise. Start from empty caches.
                jax.clear_caches()
                rn = compiled.CompiledRunner(G, nodes, cfg, jit=bool(run.get("jit", True)))
            gs_f = rn.exec_history(gs_in, hist)
            log = compiled.arun.project_log(probes.LOG.snapshot())
            rec = None
            if rf is not None:
                rec = compiled.project_record_compiled(gs_f.aux["record"], cfg, rngidx)
            ref = None
            if job.get("match_async") and eps_async is not None and e_eff < len(eps_async):
                ar = eps_async[e_eff]
                nid2name = {n["nid"]: n["name"] for n in cfg["nodes"]}
                ref = {n["name"]: [] for n in cfg["nodes"]}
                # payloads carry the episode number of the graph state they were produced in: the async episode's own number (episodes that
                # produced no record are not in the stacked graph, so the numbers can differ) is renamed to the compiled episode index
                assert ar.get("gs_eps", e_eff) == e_eff, "async episode number differs from its index in the stacked graph"
                for le in compiled.log_for_run(ar["log"], cfg, rngidx):
                    ref[le["kind"]].append(le)
            # a connection with a trainable (zero-order-hold) delay distribution: the schedule hands over the extended window, the step sees what
            # ZohApply leaves of it for the delay the distribution holds (RexRun)
            train = {}
            for c_ in cfg["conns"]:
                if "train" in c_:
                    train.setdefault(c_["in"], {})[c_["out"]] = dict(d=int(c_["train"].get("d0", c_["train"]["min"])), W=int(c_["window"]))
            t = compiled.project_run(st, cfg, gs0, hist, log, gs_f, rngidx, f"{tagm}/r{ri}", rec=rec, ref=ref, xover=rn.xover, train=train or None)
            if opts.get("skip"):
                t["skip"] = list(opts["skip"])
            out["runs"].append(t)
            out.setdefault("digests", []).append(_digest(gs_f.replace(aux=gs0.aux)))
            out["meta"].append(dict(mode=mode, prune=prune, history=run["history"], jit=bool(run.get("jit", True)), nlog=len(log), eps=e_eff,
                                    step0=int(onp.asarray(gs0.step)), P=st["H"]))
    return out


def _digest(gs):
    import hashlib

    h = hashlib.sha1()
    leaves, treedef = jax.tree_util.tree_flatten(gs)
    h.update(str(treedef).encode())
    for x in leaves:
        a = onp.asarray(x)
        h.update(str(a.dtype).encode() + str(a.shape).encode() + a.tobytes())
    return h.hexdigest()


def api_job(job):
    """C09: replay call histories (from RexApi) on one real Graph, jitted and eagerly; RexRun traces + state digests;
    init() clipping and params override; vmapped batches against un-batched runs."""
    from . import probes, trace
    from .probes import ProbeParams
    import jax.numpy as jnp

    cfg = job["cfg"]
    g_raw, eps_async, h_async = _graphs_for(job)
    n_eps = next(iter(g_raw.vertices.values())).seq.shape[0]
    mode, prune = job.get("mode", "mcs"), job.get("prune", True)
    nodes = gen.build_nodes(cfg, log=True)
    try:
        G = Graph(nodes=dict(nodes), supervisor=nodes[cfg["sup"]], graphs_raw=g_raw, supergraph=compiled.MODES[mode], prune=prune, progress_bar=False)
    except (KeyError, NetworkXUnfeasible, AssertionError) as e:   # rex or the external supergraph library refuse to compile the instance
        return dict(static=[], runs=[], digests=[], checks=[], P=0, n_eps=n_eps, skipped=f"Graph() raised {type(e).__name__} {e} (DESIGN 10.4)")
    P = G.max_steps + 1
    out = dict(static=[], runs=[], digests=[], checks=[], P=P, n_eps=n_eps)
    refused = _init_refused(G)
    if refused:
        out["skipped"] = f"Graph.init() refused: {refused} (DESIGN 10.4)"
        return out
    rj = compiled.CompiledRunner(G, nodes, cfg, jit=True)
    re = compiled.CompiledRunner(G, nodes, cfg, jit=False)
    statics = {}

    def static_for(gs0):
        e = int(onp.asarray(gs0.eps))
        if e not in statics:
            statics[e] = compiled.project_static(G, cfg, e, compiled.buffer_sizes_of(gs0), f"{job.get('id')}/e{e}", prune)
            out["static"].append(statics[e])
        return statics[e]

    # 1. init(): clipping of starting indices, params override
    pover = {cfg["nodes"][0]["name"]: ProbeParams(p=jnp.int32(77))}
    for (ea, sa) in job.get("inits", []):
        keys_before = sorted(pover)
        gs0 = G.init(jax.random.PRNGKey(job.get("seed", 0)), params=pover, starting_eps=ea, starting_step=sa)
        # init() is a function of its arguments: the caller's (partial) params dict is not written to (otherwise the defaults drawn in one call
        # become overrides of the next call with the same dict and another rng)
        out["checks"].append(dict(kind="init_leaves_params_argument_untouched", args=[ea, sa], expected=keys_before, got=sorted(pover), ok=(sorted(pover) == keys_before)))
        exp_e = min(max(ea, 0), n_eps - 1)
        exp_s = min(max(sa, 0), P - 1)
        got_e, got_s = int(onp.asarray(gs0.eps)), int(onp.asarray(gs0.step))
        got_p = int(onp.asarray(gs0.params[cfg["nodes"][0]["name"]].p))
        out["checks"].append(dict(kind="init_clip", args=[ea, sa], expected=[exp_e, exp_s, 77], got=[got_e, got_s, got_p],
                                  ok=(got_e == exp_e and got_s == exp_s and got_p == 77)))
        if exp_s < P - 1 and got_e == exp_e and got_s == exp_s:   # (a wrongly clipped index is already reported above; the run is judged from the clipped state only)
            st = static_for(gs0)
            probes.LOG.clear()
            gs_f = rj.exec_history(gs0, ["run"])
            log = compiled.arun.project_log(probes.LOG.snapshot())
            t = compiled.project_run(st, cfg, gs0, ["run"], log, gs_f, _rng_index(gs0, cfg), f"{job.get('id')}/init{ea}_{sa}")
            out["runs"].append(t)
        elif got_e == exp_e and got_s == exp_s:
            # the last partition (where every out-of-range starting step is clipped to): its supervisor step is beyond rex's horizon, but reset()
            # runs its other steps - they must be the last partition's, not an earlier one's (seeded change C09-f clipped one partition early)
            st = static_for(gs0)
            probes.LOG.clear()
            gs_f = rj.exec_history(gs0, ["reset"])
            log = compiled.arun.project_log(probes.LOG.snapshot())
            t = compiled.project_run(st, cfg, gs0, ["reset"], log, gs_f, _rng_index(gs0, cfg), f"{job.get('id')}/init{ea}_{sa}last")
            out["runs"].append(t)
    # 2. call histories
    for hi, (hist, nf, s0) in enumerate(job["api_histories"]):
        gs0 = G.init(jax.random.PRNGKey(job.get("seed", 0)), starting_eps=job.get("eps", 0), starting_step=s0)
        st = static_for(gs0)
        rngidx = _rng_index(gs0, cfg)
        for jit in ([True, False] if hi % job.get("eager_every", 5) == 0 else [True]):
            probes.LOG.clear()
            gs_f = (rj if jit else re).exec_history(gs0, hist)
            log = compiled.arun.project_log(probes.LOG.snapshot())
            t = compiled.project_run(st, cfg, gs0, hist, log, gs_f, rngidx, f"{job.get('id')}/h{hi}{'j' if jit else 'e'}")
            out["runs"].append(t)
            out["digests"].append(dict(hist=hist, nf=nf, s0=s0, jit=jit, digest=_digest(gs_f)))
            for mm in (rj if jit else re).ss_mismatch:
                out["checks"].append(dict(kind="returned_step_state_is_supervisor_step_state", hist=hist, call=mm, jit=jit, ok=False))
    # 3. vmapped batches against un-batched runs (no host logging under vmap)
    nq = gen.build_nodes(cfg, log=False)
    Gq = Graph(nodes=dict(nq), supervisor=nq[cfg["sup"]], graphs_raw=g_raw, supergraph=compiled.MODES[mode], prune=prune, progress_bar=False)
    B = job.get("batch", 3)
    keys = jax.random.split(jax.random.PRNGKey(job.get("seed", 0) + 99), B)
    n = min(3, Gq.max_steps)
    gsb = jax.vmap(lambda k: Gq.init(k, starting_eps=0))(keys)
    fb = jax.jit(jax.vmap(lambda g: Gq.rollout(g, max_steps=n)))(gsb)
    f1 = jax.jit(lambda g: Gq.rollout(g, max_steps=n))
    frun = jax.jit(jax.vmap(Gq.run))
    gr = gsb
    for _ in range(n):
        gr = frun(gr)
    for b in range(B):
        single = f1(Gq.init(keys[b], starting_eps=0))
        pick = jax.tree_util.tree_map(lambda x: x[b], fb)
        pick2 = jax.tree_util.tree_map(lambda x: x[b], gr)
        out["checks"].append(dict(kind="vmap_rollout_vs_single", b=b, ok=(_digest(pick) == _digest(single))))
        out["checks"].append(dict(kind="vmap_run_n_vs_single_rollout", b=b, ok=(_digest(pick2) == _digest(single))))
    # carry-only vs full trajectory rollout
    g1 = Gq.init(keys[0], starting_eps=0)
    full = jax.jit(lambda g: Gq.rollout(g, max_steps=n, carry_only=False))(g1)
    last = jax.tree_util.tree_map(lambda x: x[-1], full)
    out["checks"].append(dict(kind="rollout_full_last_vs_carry", ok=(_digest(last) == _digest(f1(g1)))))
    return out


def buffer_job(job):
    """C08: user-supplied buffer_sizes. Every size from the minimum to minimum+2 must execute correctly; a size below the minimum must be refused."""
    from . import probes

    cfg = job["cfg"]
    g_raw, eps_async, h_async = _graphs_for(job)
    out = dict(static=[], runs=[], checks=[])
    nodes = gen.build_nodes(cfg, log=True)
    try:
        G0 = Graph(nodes=dict(nodes), supervisor=nodes[cfg["sup"]], graphs_raw=g_raw, progress_bar=False)
    except (KeyError, NetworkXUnfeasible, AssertionError) as e:
        out["skipped"] = f"Graph() raised {type(e).__name__} {e} (DESIGN 10.4)"
        return out
    mins = {k: int(max(v) if len(v) > 0 else 1) for k, v in G0.timings.get_buffer_sizes().items()}
    big = [k for k, v in mins.items() if v > 1]
    variants = [({k: v + d for k, v in mins.items()}, True) for d in (0, 1, 2)]
    # one below the largest requirement of ANY producer (as a plain int, the documented form) must be refused - also when another, less demanding
    # reader of that producer would be satisfied (seeded change C08-h compared the size with the first reader's requirement only)
    for k in big[:4]:
        variants.append(({k: mins[k] - 1}, False))
    for vi, (sizes, admissible) in enumerate(variants):
        nodes = gen.build_nodes(cfg, log=True)
        try:
            G = Graph(nodes=dict(nodes), supervisor=nodes[cfg["sup"]], graphs_raw=g_raw, progress_bar=False, buffer_sizes=dict(sizes))
            built = True
        except AssertionError:
            built = False
        out["checks"].append(dict(kind="buffer_sizes_admissibility", sizes=sizes, minimum=mins, admissible=admissible, accepted=built, ok=(built == admissible)))
        if not built or not admissible:
            continue
        gs0 = G.init(jax.random.PRNGKey(job.get("seed", 0)))
        got = compiled.buffer_sizes_of(gs0)
        out["checks"].append(dict(kind="buffer_sizes_used", sizes=sizes, got=got, ok=all(got.get(k) == v for k, v in sizes.items() if k in got)))
        st = compiled.project_static(G, cfg, 0, got, f"{job.get('id')}/buf{vi}/e0", True)
        out["static"].append(st)
        probes.LOG.clear()
        hist = [f"rollout:{G.max_steps}"]
        gs_f = compiled.CompiledRunner(G, nodes, cfg, jit=True).exec_history(gs0, hist)
        log = compiled.arun.project_log(probes.LOG.snapshot())
        out["runs"].append(compiled.project_run(st, cfg, gs0, hist, log, gs_f, _rng_index(gs0, cfg), f"{job.get('id')}/buf{vi}"))
    return out


# ----------------------------------------------------------------------------------------------
# C10 end to end: compiled system with a trainable (zoh) delay set to d  ==  compiled system with a static delay d
# ----------------------------------------------------------------------------------------------
def _clip(d, lo, hi):
    return lo if d < lo else hi if d > hi else d


def c10_e2e_job(job):
    """job: cfg (one connection has 'train': {min, max}), variants: [{d, how in 'dist'|'init_delays'|'params'}], mode, prune, ts_max.

    System A: the trainable connection (graph generated by rex with the minimal delay, window extended at compile time), run with the delay
    set to d.  System B: the same nodes, the connection has the static delay clip(d, min, max); its own generated graph.  Both are rolled out
    over the whole horizon; A's run must be a behaviour of RexRun (with ZohApply on the trainable input) whose every common step sees what
    B's step saw (clauses MatchesAsync_* with B's probe log as the reference)."""
    import copy

    from . import probes, trace

    cfg = job["cfg"]
    tc = [c for c in cfg["conns"] if "train" in c][0]
    key = trace.conn_id(tc)
    out = dict(static=[], runs=[], meta=[], notes=[])
    mode, prune = job["mode"], job["prune"]
    for vi, var in enumerate(job["variants"]):
        d, how = var["d"], var["how"]
        deff = _clip(d, tc["train"]["min"], tc["train"]["max"])
        cfgA = copy.deepcopy(cfg)
        ta = [c for c in cfgA["conns"] if "train" in c][0]["train"]
        params = None
        if how == "dist":
            ta["d0"] = deff  # TrainableDist.create refuses values outside [min, max]
        elif how == "init_delays":
            ta["d_init"] = d
        else:
            ta["from_params"] = True
        if how != "dist" and "d0" in var:
            ta["d0"] = var["d0"]   # the distribution object was created with another delay than the one set at init (graphs must still be generated for min)
        cfgB = copy.deepcopy(cfg)
        tb = [c for c in cfgB["conns"] if "train" in c][0]
        del tb["train"]
        tb["cdist"] = [deff]
        res = {}
        for tag, c_ in (("A", cfgA), ("B", cfgB)):
            nodes = gen.build_nodes(c_, log=True)
            if how == "params":
                nodes[tc["in"]].p = d  # the receiving node's param is the delay (ticks); it also enters the probe hash, in both systems
            g_raw = generate_graphs(nodes, ts_max=job["ts_max"] / probes.GRID, rng=jax.random.PRNGKey(job.get("seed", 0)), num_episodes=1)
            try:
                G = Graph(nodes=dict(nodes), supervisor=nodes[c_["sup"]], graphs_raw=g_raw, supergraph=compiled.MODES[mode], prune=prune, progress_bar=False)
            except (KeyError, NetworkXUnfeasible, AssertionError) as e:  # rex or the external supergraph library refuse to compile the instance
                out["notes"].append(f"{tag}: Graph() raised {type(e).__name__} {e} (DESIGN 10.4)")
                res = None
                break
            refused = _init_refused(G)
            if refused:
                out["notes"].append(f"{tag}: Graph.init() refused: {refused} (DESIGN 10.4)")
                res = None
                break
            gs0 = G.init(jax.random.PRNGKey(job.get("seed", 0)))
            st = compiled.project_static(G, c_, 0, compiled.buffer_sizes_of(gs0), f"{job['id']}/v{vi}{tag}/{mode}/{'prune' if prune else 'noprune'}/e0", prune)
            rngidx = _rng_index(gs0, c_)
            hist = [f"rollout:{G.max_steps}"]
            probes.LOG.clear()
            rn = compiled.CompiledRunner(G, nodes, c_, jit=bool(var.get("jit", True)))
            gs_f = rn.exec_history(gs0, hist)
            log = compiled.arun.project_log(probes.LOG.snapshot())
            res[tag] = dict(G=G, gs0=gs0, gs_f=gs_f, st=st, log=log, rngidx=rngidx, hist=hist, raw=compiled.raw_episode(g_raw, 0),
                            alpha=float(onp.asarray(gs0.inputs[tc["in"]][tc.get("name", tc["out"])].delay_dist.alpha)) if tag == "A" else None)
        if res is None:
            continue
        A, B = res["A"], res["B"]
        # precondition of the comparison: the two systems have the same vertices (the trainable connection is non-blocking: it does not time anything)
        if A["raw"][0] != B["raw"][0]:
            out["notes"].append(f"v{vi}: the generated graphs of the two systems have different vertices; pair skipped")
            continue
        ref = {n["name"]: [] for n in cfg["nodes"]}
        for le in compiled.log_for_run(B["log"], cfgB, B["rngidx"]):
            ref[le["kind"]].append(le)
        for k in ref:  # indexed by sequence number in RexRun
            ref[k] = sorted(ref[k], key=lambda e: e["seq"])
            assert [e["seq"] for e in ref[k]] == list(range(len(ref[k]))), "reference log has gaps"
        train = {tc["in"]: {tc["out"]: dict(d=deff, W=int(tc["window"]))}}
        tA = compiled.project_run(A["st"], cfgA, A["gs0"], A["hist"], A["log"], A["gs_f"], A["rngidx"], f"{job['id']}/v{vi}A", ref=ref, train=train)
        tB = compiled.project_run(B["st"], cfgB, B["gs0"], B["hist"], B["log"], B["gs_f"], B["rngidx"], f"{job['id']}/v{vi}B")
        out["static"] += [A["st"], B["st"]]
        out["runs"] += [tA, tB]
        sent = [r["end"] for r in A["raw"][0][tc["out"]]]
        starts = [r["start"] for r in A["raw"][0][tc["in"]]]
        for tag in ("A", "B"):
            out["meta"].append(dict(variant=var, deff=deff, system=tag, key=key, skip=bool(tc["skip"]), sent=sent, starts=starts, alpha=A["alpha"],
                                    train=tc["train"], window=int(tc["window"]), period_out=[n for n in cfg["nodes"] if n["name"] == tc["out"]][0]["period"],
                                    nlog=len(res[tag]["log"]), mode=mode, prune=prune))
    return out
