"""Subprocess entry: python -m harness.worker <job.json> <out.json>.  One process per job (XLA compilations and
executor threads accumulate in a process, see DESIGN 5)."""
import json
import os
import sys
import traceback


def main():
    jf, of = sys.argv[1], sys.argv[2]
    with open(jf) as f:
        job = json.load(f)
    try:
        kind = job["kind"]
        if kind == "async":
            from .jobs_async import run_async_job

            res = run_async_job(job)
        elif kind == "pyfunc":
            import importlib

            mod = importlib.import_module(job["module"])
            res = getattr(mod, job["func"])(job)
        else:
            raise ValueError(f"unknown job kind {kind}")
        res.setdefault("ok", True)
    except BaseException as e:  # noqa
        res = dict(ok=False, error="".join(traceback.format_exception(type(e), e, e.__traceback__))[-6000:])
    with open(of + ".tmp", "w") as f:
        json.dump(res, f)
    os.replace(of + ".tmp", of)
    sys.stdout.flush()
    os._exit(0)  # do not wait for stray executor threads


if __name__ == "__main__":
    main()
