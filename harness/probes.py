"""Probe nodes, grid delay distribution and host-side log.

Everything here is *user-level* rex code: ordinary BaseNode subclasses and an
ordinary DelayDistribution subclass.  Nothing reaches into rex internals.

Time grid: 1/64 s (see DESIGN 3.1).  All times that leave this module are
integers (multiples of 1/64 s); a value off the grid raises OffGrid.
"""
import threading
from typing import Any, Dict, Tuple

import jax
import jax.numpy as jnp
import numpy as onp
from flax import struct
from flax.core import FrozenDict
from jax.experimental import io_callback

from rex import base
from rex.node import BaseNode

GRID = 64  # ticks per second
MOD = 100003  # probe hash modulus (prime, < 2^17 so 31*MOD fits easily in int32)


class OffGrid(Exception):
    pass


def to_grid(x, what="value") -> int:
    """Exact conversion seconds -> grid ticks.  Never rounds silently."""
    v = float(x) * GRID
    if v != v or v in (float("inf"), float("-inf")):
        # NaN / inf is never a grid problem of the harness: it is what the implementation produced.  A sentinel no law can produce, so that the
        # trace is rejected by the clause that owns the field instead of the job dying (seeded change C06-g: fill-valued timings)
        return -777777
    r = round(v)
    if abs(v - r) > 1e-6:
        raise OffGrid(f"{what}={x!r} is not on the 1/{GRID} s grid")
    return int(r)


# ----------------------------------------------------------------------------------------------
# Delay distribution on the grid
# ----------------------------------------------------------------------------------------------
_RESET_LOG_LOCK = threading.Lock()
RESET_LOG: Dict[int, list] = {}  # tag -> list of rng keys the distribution was reset with


def _capture_reset(tag, rng):
    with _RESET_LOG_LOCK:
        RESET_LOG.setdefault(int(tag), []).append(tuple(int(v) for v in onp.asarray(rng).reshape(-1)))


@struct.dataclass
class GridDist(base.DelayDistribution):
    """Uniform choice from a finite set of grid values.

    Counter based: the j-th sample after reset(rng) is values[randint(fold_in(rng, j))], whatever the
    batch sizes in which the samples are drawn.
    """

    rng: jax.Array
    ctr: jax.Array
    values: Tuple[int, ...] = struct.field(pytree_node=False, default=(0,))  # in grid ticks
    tag: int = struct.field(pytree_node=False, default=0)

    @classmethod
    def create(cls, values, tag=0) -> "GridDist":
        values = tuple(int(v) for v in values)
        assert len(values) > 0 and min(values) >= 0
        return cls(rng=jax.random.PRNGKey(0), ctr=jnp.int32(0), values=values, tag=int(tag))

    def reset(self, rng: jax.Array) -> "GridDist":
        jax.debug.callback(_capture_reset, self.tag, rng)
        return self.replace(rng=rng, ctr=jnp.int32(0))

    def sample(self, shape=None):
        if shape is None:
            shape = ()
        shape = (shape,) if isinstance(shape, int) else tuple(shape)
        n = int(onp.prod(shape)) if len(shape) > 0 else 1
        idx = self.ctr + jnp.arange(n, dtype=jnp.int32)
        vals = jnp.asarray(self.values, dtype=jnp.float32) / GRID

        def one(j):
            k = jax.random.fold_in(self.rng, j)
            c = jax.random.randint(k, (), 0, len(self.values))
            return vals[c]

        samples = jax.vmap(one)(idx).reshape(shape)
        return self.replace(ctr=self.ctr + n), samples

    def quantile(self, q):
        return max(self.values) / GRID

    def mean(self):
        return float(onp.mean(self.values)) / GRID

    def pdf(self, x):
        return 0.0


def grid_stream(values, rng_words, n):
    """The first n samples (grid ticks) of GridDist(values) after reset(rng)."""
    rng = jnp.asarray(onp.array(rng_words, dtype=onp.uint32))
    d = GridDist.create(values).replace(rng=rng)
    _, s = d.sample(n)
    return [to_grid(v) for v in onp.asarray(s)]


# ----------------------------------------------------------------------------------------------
# Probe node
# ----------------------------------------------------------------------------------------------
@struct.dataclass
class ProbeOut(base.Base):
    nid: jax.Array  # node id
    eps: jax.Array
    seq: jax.Array
    h: jax.Array  # node hash AFTER the step that produced this output
    vec: jax.Array  # a leaf with MORE THAN ONE element per message: [h mod 97, seq + 1] (a window is an array of these; element-wise vs message-wise handling shows)


def probe_out(nid, eps, seq, h) -> "ProbeOut":
    h = jnp.asarray(h, dtype=jnp.int32)
    seq = jnp.asarray(seq, dtype=jnp.int32)
    return ProbeOut(nid=jnp.asarray(nid, dtype=jnp.int32), eps=jnp.asarray(eps, dtype=jnp.int32), seq=seq, h=h, vec=jnp.stack([h % 97, seq + 1]).astype(jnp.int32))


@struct.dataclass
class ProbeState(base.Base):
    h: jax.Array


@struct.dataclass
class ProbeParams(base.Base):
    p: jax.Array  # an integer folded into the hash (lets checks see which params a step used)


class HostLog:
    """Thread-safe host-side log of every probe step execution (in execution order)."""

    def __init__(self):
        self._lock = threading.Lock()
        self.entries = []

    def clear(self):
        with self._lock:
            self.entries = []

    def append(self, e):
        with self._lock:
            self.entries.append(e)

    def snapshot(self):
        with self._lock:
            return list(self.entries)


LOG = HostLog()


def payload_hash(nid, eps, seq, h):
    """Hash of one window entry's payload. Same formula in RexLaw.tla (PayloadHash)."""
    return (nid * 7 + (eps + 1) * 13 + (seq + 1) * 17 + h) % MOD


def _host_log(nid, in_names, eps, seq, ts, rng, p, h, new_h, *flat_inputs):
    e = dict(
        nid=int(nid),
        eps=int(eps),
        seq=int(seq),
        ts=float(ts),
        rng=tuple(int(v) for v in onp.asarray(rng).reshape(-1)),
        p=int(p),
        h=int(h),
        h_out=int(new_h),
        inputs={},
    )
    per = 7
    for j, name in enumerate(in_names):
        s, tsent, trecv, dn, de, ds, dh = flat_inputs[per * j : per * j + per]
        e["inputs"][name] = dict(
            seq=[int(v) for v in onp.asarray(s)],
            ts_sent=[float(v) for v in onp.asarray(tsent)],
            ts_recv=[float(v) for v in onp.asarray(trecv)],
            nid=[int(v) for v in onp.asarray(dn)],
            eps=[int(v) for v in onp.asarray(de)],
            dseq=[int(v) for v in onp.asarray(ds)],
            h=[int(v) for v in onp.asarray(dh)],
        )
    LOG.append(e)


class ProbeNode(BaseNode):
    """Stateful hashing node; logs everything it sees and produces to the host.

    h' = (31*h + p + sum_{inputs, window entries} (PayloadHash(entry) + max(entry.seq,-1) + 1) + seq + 1) mod MOD
    output = (nid, eps, seq, h')
    rng'   = split(rng)[0]
    """

    def __init__(self, *args, nid: int = 0, p: int = 0, log: bool = True, use_callback: bool = True, **kwargs):
        super().__init__(*args, **kwargs)
        self.nid = int(nid)
        self.p = int(p)
        self.do_log = log
        self.use_callback = use_callback  # io_callback (works jitted and un-jitted)
        self.delay_from_params = []  # input names whose delay (ticks) is the node's param p
        self.delays_override = {}  # input name -> delay (s) returned by init_delays (trainable delays, C10)
        self.consume_inputs = False  # the step function hands back "consumed" inputs (all seq = -1): legal; the compiled runtime rebuilds the windows
        self.ts_bump = 0.0  # the step function time-stamps the step state it returns (ts + bump): legal, ignored under the simulated clock

    def init_delays(self, rng=None, graph_state=None):
        d = dict(super().init_delays(rng, graph_state))
        d.update(self.delays_override)
        for iname in self.delay_from_params:  # the rex idiom: trainable delays taken from the node's params in the graph state
            d[iname] = graph_state.params[self.name].p.astype(jnp.float32) / GRID
        return d

    def init_params(self, rng=None, graph_state=None) -> ProbeParams:
        return ProbeParams(p=jnp.int32(self.p))

    def init_state(self, rng=None, graph_state=None) -> ProbeState:
        return ProbeState(h=jnp.int32(self.nid + 1))

    def init_output(self, rng=None, graph_state=None) -> ProbeOut:
        return probe_out(self.nid, -1, -1, 0)

    def step(self, step_state: base.StepState):
        ss = step_state
        h = ss.state.h
        acc = jnp.int32(0)
        flat = []
        names = tuple(sorted(ss.inputs.keys())) if ss.inputs is not None else tuple()
        for name in names:
            i = ss.inputs[name]
            d = i.data
            ph = (d.nid * 7 + (d.eps + 1) * 13 + (d.seq + 1) * 17 + d.h + 3 * d.vec[..., 0] + 5 * d.vec[..., 1]) % MOD
            sq = jnp.maximum(i.seq, -1) + 1
            acc = (acc + jnp.sum((ph + sq) % MOD)) % MOD
            flat += [i.seq, i.ts_sent, i.ts_recv, d.nid, d.eps, d.seq, d.h]
        seq = jnp.asarray(ss.seq, dtype=jnp.int32)
        eps = jnp.asarray(ss.eps, dtype=jnp.int32)
        new_h = ((31 * h) % MOD + ss.params.p % MOD + acc + (seq + 1) % MOD) % MOD
        new_h = new_h.astype(jnp.int32)
        new_rng = jax.random.split(ss.rng)[0]
        if self.do_log:
            if self.use_callback:
                fn = lambda *a: _host_log(self.nid, names, *a)  # noqa: E731
                jax.debug.callback(fn, eps, seq, ss.ts, ss.rng, ss.params.p, h, new_h, *flat, ordered=True)
            else:
                _host_log(self.nid, names, eps, seq, ss.ts, ss.rng, ss.params.p, h, new_h, *flat)
        out = probe_out(self.nid, eps, seq, new_h)
        new_ss = ss.replace(rng=new_rng, state=ProbeState(h=new_h))
        if self.ts_bump:
            new_ss = new_ss.replace(ts=ss.ts + self.ts_bump)
        if self.consume_inputs and ss.inputs is not None:
            new_ss = new_ss.replace(inputs=type(ss.inputs)({k: v.replace(seq=jnp.full_like(v.seq, -1)) for k, v in ss.inputs.items()}))
        return new_ss, out


def _chain_scan(r, n):
    def body(c, _):
        return jax.random.split(c)[0], c
    return jax.lax.scan(body, r, None, length=n)[1]


_chain_jit = jax.jit(_chain_scan, static_argnums=1)


def rng_chain(rng0, n):
    """chain[0]=rng0, chain[j+1]=split(chain[j])[0]; as tuples of ints."""
    r = jnp.asarray(rng0)
    if n <= 64:
        out = []
        for _ in range(n):
            out.append(tuple(int(v) for v in onp.asarray(r).reshape(-1)))
            r = jax.random.split(r)[0]
        return out
    m = 1 << (n - 1).bit_length()          # few distinct compiled lengths
    ys = onp.asarray(_chain_jit(r, m)).reshape(m, -1)[:n]
    return [tuple(int(v) for v in row) for row in ys]
