"""Hand-made configuration families that target situations random generation rarely produces (found through seeded mutants)."""


def _n(name, nid, period, delay, cdist, **kw):
    d = dict(name=name, nid=nid, period=period, delay=delay, cdist=list(cdist), advance=False, sched="F", p=nid + 2)
    d.update(kw)
    return d


def _c(out, inn, name=None, blocking=False, skip=False, jitter="L", window=1, delay=0, cdist=(0,)):
    return {"out": out, "in": inn, "name": name or out, "blocking": blocking, "skip": skip, "jitter": jitter, "window": window,
            "delay": delay, "cdist": list(cdist)}


def slow_side_node(rng):
    """A node slower than the supervisor (does not run in every partition) that reads from the supervisor and a sensor and feeds the
    supervisor: its last recorded step lies inside the compiled horizon."""
    ps = rng.choice([2, 4])
    return dict(nodes=[_n("world", 0, ps, 1, [1]), _n("sensor", 1, ps, 0, [0, 1]), _n("agent", 2, ps, 1, [1, 2]),
                       _n("est", 3, ps * rng.choice([2, 3, 4]), 1, [1, 3])],
                conns=[_c("world", "sensor", window=1, cdist=[0, 1]), _c("sensor", "agent", window=rng.choice([1, 2, 3]), delay=1, cdist=[0, 1, 2]),
                       _c("agent", "world", skip=True, window=1, cdist=[0, 1]), _c("agent", "est", name="in_agent", window=2, cdist=[0, 2]),
                       _c("sensor", "est", window=2, cdist=[1]), _c("est", "agent", skip=True, window=rng.choice([1, 2]), delay=1, cdist=[0, 1, 3])],
                sup="agent")


def slow_producer(rng):
    """A producer much slower than its reader with a window that fills late (or never within a short episode): the ring-buffer requirement
    is set by steps whose window still holds negative (default) entries."""
    pc = 2
    pp = pc * rng.choice([3, 4])
    return dict(nodes=[_n("sensor", 0, pp, 0, [0, 1, 2]), _n("ctrl", 1, pc, 0, [0, 1]), _n("plant", 2, pc, 1, [1])],
                conns=[_c("sensor", "ctrl", window=rng.choice([2, 3, 4]), delay=rng.choice([0, 1]), cdist=[0, 1, 5] if rng.random() < 0.5 else [3, 7]),
                       _c("ctrl", "plant", window=1, cdist=[0, 1]), _c("plant", "ctrl", skip=True, window=rng.choice([1, 2]), cdist=[0, 1])],
                sup="ctrl")


def long_sink(rng):
    """Sink nodes (not ancestors of the supervisor) one of which has a step that runs for many supervisor periods while the steps of the
    other sink come and go: exercises prune=False attachment of non-ancestors."""
    p = 4
    return dict(nodes=[_n("sensor", 0, p, 1, [0, 1]), _n("agent", 1, p, 1, [1]), _n("logger", 2, p // 2, 0, [0, 1]),
                       _n("render", 3, p * 4, 1, [p * rng.choice([11, 13]) + 1])],
                conns=[_c("sensor", "agent", window=2, delay=1, cdist=[0, 1]), _c("agent", "logger", window=rng.choice([1, 2]), delay=1, cdist=[0, 1]),
                       _c("agent", "render", name="in_agent", window=1, cdist=[0])],
                sup="agent")


FAMILIES = {"slow_side_node": slow_side_node, "slow_producer": slow_producer, "long_sink": long_sink}
