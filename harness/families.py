"""Hand-made configuration families that target situations random generation rarely produces (found through seeded mutants)."""


def _n(name, nid, period, delay, cdist, **kw):
    d = dict(name=name, nid=nid, period=period, delay=delay, cdist=list(cdist), advance=False, sched="F", p=nid + 2)
    d.update(kw)
    return d


def _c(out, inn, name=None, blocking=False, skip=False, jitter="L", window=1, delay=0, cdist=(0,)):
    return {"out": out, "in": inn, "name": name or out, "blocking": blocking, "skip": skip, "jitter": jitter, "window": window,
            "delay": delay, "cdist": list(cdist)}


def slow_side_node(rng):
    """A node slower than the supervisor (does not run in every partition) that reads from the supervisor and a sensor and feeds the
    supervisor: its last recorded step lies inside the compiled horizon."""
    ps = rng.choice([2, 4])
    return dict(nodes=[_n("world", 0, ps, 1, [1]), _n("sensor", 1, ps, 0, [0, 1]), _n("agent", 2, ps, 1, [1, 2]),
                       _n("est", 3, ps * rng.choice([2, 3, 4]), 1, [1, 3])],
                conns=[_c("world", "sensor", window=1, cdist=[0, 1]), _c("sensor", "agent", window=rng.choice([1, 2, 3]), delay=1, cdist=[0, 1, 2]),
                       _c("agent", "world", skip=True, window=1, cdist=[0, 1]), _c("agent", "est", name="in_agent", window=2, cdist=[0, 2]),
                       _c("sensor", "est", window=2, cdist=[1]), _c("est", "agent", skip=True, window=rng.choice([1, 2]), delay=1, cdist=[0, 1, 3])],
                sup="agent")


def slow_producer(rng):
    """A producer much slower than its reader with a window that fills late (or never within a short episode): the ring-buffer requirement
    is set by steps whose window still holds negative (default) entries."""
    pc = 2
    pp = pc * rng.choice([3, 4])
    return dict(nodes=[_n("sensor", 0, pp, 0, [0, 1, 2]), _n("ctrl", 1, pc, 0, [0, 1]), _n("plant", 2, pc, 1, [1])],
                conns=[_c("sensor", "ctrl", window=rng.choice([2, 3, 4]), delay=rng.choice([0, 1]), cdist=[0, 1, 5] if rng.random() < 0.5 else [3, 7]),
                       _c("ctrl", "plant", window=1, cdist=[0, 1]), _c("plant", "ctrl", skip=True, window=rng.choice([1, 2]), cdist=[0, 1])],
                sup="ctrl")


def long_sink(rng):
    """Sink nodes (not ancestors of the supervisor) one of which has a step that runs for many supervisor periods while the steps of the
    other sink come and go: exercises prune=False attachment of non-ancestors."""
    p = 4
    return dict(nodes=[_n("sensor", 0, p, 1, [0, 1]), _n("agent", 1, p, 1, [1]), _n("logger", 2, p // 2, 0, [0, 1]),
                       _n("render", 3, p * 4, 1, [p * rng.choice([11, 13]) + 1])],
                conns=[_c("sensor", "agent", window=2, delay=1, cdist=[0, 1]), _c("agent", "logger", window=rng.choice([1, 2]), delay=1, cdist=[0, 1]),
                       _c("agent", "render", name="in_agent", window=1, cdist=[0])],
                sup="agent")


def same_generation_pair(rng):
    """Producer and consumer at the same rate, communication delay of about one period or more: consumer step k reads producer output k-1
    (or older) while producer step k runs in the SAME generation, and the automatically sized ring buffer is exactly tight.  Names are
    chosen so that the producer sorts before its consumer (slots of a generation are visited in name order): any write that becomes
    visible inside a generation is read by the consumer (seeded change C08-b)."""
    p = rng.choice([2, 4])
    lag = p * rng.choice([1, 1, 2])
    w = rng.choice([1, 1, 2])
    return dict(nodes=[_n("a_prod", 0, p, 0, [0]), _n("b_cons", 1, p, 0, [0]), _n("c_sup", 2, 2 * p, 1, [1])],
                conns=[_c("a_prod", "b_cons", window=w, delay=lag, cdist=[lag]),
                       _c("b_cons", "c_sup", window=rng.choice([1, 2]), delay=0, cdist=[0, 1])],
                sup="c_sup")


def fast_node(rng):
    """A node running more than ten times faster than the supervisor: more than ten slots of one kind per partition (slot names
    s<kind>_<idx> reach two-digit indices; TOPOLOGICAL / GENERATIONAL supergraphs are uniform and run a kind's slots under lax.scan
    in a stored order; seeded change C01-b sorted that order lexicographically)."""
    ps = rng.choice([24, 32])
    return dict(nodes=[_n("sup", 0, ps, 1, [1, 2]), _n("a", 1, 2, 0, [0, 1]), _n("b", 2, 8, 1, [1, 2])],
                conns=[_c("a", "sup", window=2, cdist=[0, 1]), _c("b", "sup", window=1, delay=1, cdist=[1]),
                       _c("sup", "a", name="in_sup", skip=True, window=1, cdist=[0, 1]), _c("a", "b", window=2, cdist=[0, 1])],
                sup="sup")


def advance_mixed(rng):
    """A node with advance=True that has a blocking AND a non-blocking input, whose blocking messages usually arrive before its scheduled
    time (sampled communication delay below the expected one): it must still wait for its schedule (only a node with blocking inputs ONLY
    may start early).  Seeded change C04-a computed `only blocking` over the already filtered blocking inputs."""
    p = rng.choice([4, 8])
    return dict(nodes=[_n("s", 0, p, 0, [0, 1]), _n("t", 1, p, 1, [1]), _n("c", 2, p, 1, [1, 2], advance=True, sched=rng.choice(["F", "P"]))],
                conns=[_c("s", "c", blocking=True, window=rng.choice([1, 2]), delay=3, cdist=[0, 1, 3]),
                       _c("t", "c", name="in_t", window=1, delay=0, cdist=[0, 1]),
                       _c("c", "s", name="in_c", skip=True, window=1, delay=0, cdist=[0, 1])],
                sup="c")


def blocking_tie(rng):
    """Blocking, un-skipped connection whose expected delays add up to exactly k receiver periods: a nominal producer time stamp coincides
    with `receiver.phase - period`, the boundary of the first step's window in the phase rule of blocking connections (<= for un-skipped,
    < for skipped connections).  Seeded change C03-c merged the two comparisons."""
    P = rng.choice([4, 8])
    k = 1   # k >= 2 would leave the supported class (rule iv: expected delays of a blocking connection on a cycle below the receiver's period)
    a = rng.choice([1, 2, 3])
    b = k * P - a
    ps = rng.choice([P, P // 2])
    skip_fb = True
    return dict(nodes=[_n("s", 0, ps, a, sorted({max(a - 1, 0), a})), _n("r", 1, P, 1, [0, 1])],
                conns=[_c("s", "r", blocking=True, window=rng.choice([1, 2, 3]), delay=b, cdist=sorted({max(b - 1, 0), b})),
                       _c("r", "s", name="in_r", skip=skip_fb, window=1, delay=0, cdist=[0, 1])],
                sup="r")


def rare_overrun(rng):
    """A node at the supervisor's rate whose computation delay rarely exceeds its period: in some episodes of an experiment it runs in
    every partition, in others one of its ticks falls out of a partition (masked slot).  Run masks that differ BETWEEN the episodes of one
    compiled graph (seeded change C06-c derived a per-kind 'always runs' shortcut from the fullest episode)."""
    P = rng.choice([4, 8])
    # even episodes: `a` never overruns (runs in every partition); odd episodes: it overruns now and then (cdist_alt, see arun.run_history)
    return dict(nodes=[_n("a", 0, P, 1, [1], cdist_alt=[1, 2 * P + 2]), _n("s", 1, P, 1, [1]), _n("w", 2, P, 0, [0, 1])],
                conns=[_c("a", "s", window=2, delay=1, cdist=[0, 1]), _c("s", "w", window=1, delay=0, cdist=[0, 1]),
                       _c("w", "a", name="in_w", skip=True, window=1, delay=0, cdist=[0, 1])],
                sup="s")


def fast_chain(rng):
    """Acyclic: a fast source feeding two slower consumers; every step of a consumer (from its first one on) consumes several messages.
    Used for truncated records (max_records): the messages consumed by the recorded steps outnumber the recorded steps."""
    P = rng.choice([8, 16])
    return dict(nodes=[_n("a", 0, 2, 1, [0, 1]), _n("b", 1, 8, 1, [1, 2]), _n("sup", 2, P, 1, [1])],
                conns=[_c("a", "b", window=2, delay=1, cdist=[0, 1]), _c("a", "sup", name="in_a", window=3, delay=1, cdist=[0, 1]),
                       _c("b", "sup", window=1, delay=1, cdist=[0, 1])],
                sup="sup")


def early_arrival(rng):
    """Non-blocking LATEST connection whose messages arrive much EARLIER than the declared (expected) delay: whether a message that has
    arrived before a step's start is already known when the step's selection is closed must not depend on which thread ran first
    (seeded change C02-d closed the selection on the EXPECTED arrival of the next message)."""
    P = rng.choice([6, 8])
    d = rng.choice([3, 4, 5])
    return dict(nodes=[_n("prod", 0, 2, 0, [0, 1]), _n("sup", 1, P, 1, [1, 2]), _n("w", 2, 4, 0, [0, 1])],
                conns=[_c("prod", "sup", window=4, delay=d, cdist=[0, 1]), _c("sup", "w", window=1, delay=0, cdist=[0, 1]),
                       _c("w", "prod", name="in_w", skip=True, window=1, delay=d, cdist=[0])],
                sup="sup")


def jitter_chain(rng):
    """A sender that itself has an input, feeding a slower consumer over a connection whose jitter is several sender periods: consecutive
    messages are FIFO-clamped all the time, and the sender's time-stamp announcements run ahead of its messages by an amount that depends
    on the thread schedule (seeded change C02-e let message delivery rewind the clamp)."""
    P = rng.choice([8, 4])
    return dict(nodes=[_n("src", 0, 4, 0, [0, 1]), _n("mid", 1, 2, 0, [0, 1]), _n("sup", 2, P, 1, [1, 2])],
                conns=[_c("src", "mid", window=2, delay=0, cdist=[0, 1]), _c("mid", "sup", window=3, delay=2, cdist=[0, 2, 5, 9]),
                       _c("sup", "src", name="in_sup", skip=True, window=1, delay=0, cdist=[0, 1])],
                sup="sup")


FAMILIES = {"jitter_chain": jitter_chain, "early_arrival": early_arrival, "fast_chain": fast_chain, "rare_overrun": rare_overrun, "blocking_tie": blocking_tie, "advance_mixed": advance_mixed, "fast_node": fast_node, "same_generation_pair": same_generation_pair, "slow_side_node": slow_side_node, "slow_producer": slow_producer, "long_sink": long_sink}


def overrun_freq(rng):
    """A FREQUENCY-scheduled node whose computation delay exceeds its period in some steps (its structural scheduling shift grows) next to a
    supervisor that keeps up: the header of every recorded step (scheduled time, scheduling shift, previous end) must be the values that step
    was scheduled with (seeded change C13-f recorded the NEXT step's scheduling shift)."""
    P = rng.choice([2, 4])
    # node w also time-stamps the step state it returns (ts + 1 tick): ignored under the simulated clock - the record keeps the start the step was given
    # (seeded change C13-g recorded the adjusted value)
    return dict(nodes=[_n("slow", 0, P, 1, [1, P + 1, 2 * P + 1]), _n("sup", 1, 2 * P, 1, [0, 1]), _n("w", 2, P, 0, [0, P + 2], ts_bump=1)],
                conns=[_c("slow", "sup", window=2, delay=1, cdist=[0, 1]), _c("sup", "w", window=1, delay=0, cdist=[0, 1]),
                       _c("w", "slow", name="in_w", skip=True, window=1, delay=0, cdist=[0, 1])],
                sup="sup")


def shadow_clash(rng):
    """An input whose (shadow) name is the name of ANOTHER node of the graph: ctrl reads est's output under the input name "sensor" while the
    raw sensor node is still in the graph.  Input names and output rings are different name spaces (seeded change C08-f looked the ring up by
    the input name)."""
    P = rng.choice([4, 8])
    return dict(nodes=[_n("sensor", 0, 2, 1, [0, 1]), _n("est", 1, 4, 1, [1, 2]), _n("ctrl", 2, P, 1, [1])],
                conns=[_c("sensor", "est", window=2, delay=1, cdist=[0, 1]), _c("est", "ctrl", name="sensor", window=2, delay=1, cdist=[0, 1]),
                       _c("ctrl", "sensor", name="est", skip=True, window=1, delay=0, cdist=[0, 1])],
                sup="ctrl")


def train_tie(rng):
    """A recorded system with a trainable (constant, zero-order-hold) communication delay whose messages arrive EXACTLY at the consumer's step
    starts (grid delays, default phase = expected arrival): the compiled replay re-derives the arrivals from the send times and the delay and
    must hand the tied message to the same step as the threaded runtime did (seeded change C01-g: >= instead of > in apply_delay)."""
    d = rng.choice([1, 2])
    return dict(nodes=[_n("sensor", 0, 2, 1, [1]), _n("ctrl", 1, 4, 1, [1]), _n("act", 2, 2, 1, [1])],
                conns=[dict(_c("sensor", "ctrl", window=2, delay=d, cdist=[d]), train=dict(min=0, max=4, d0=d)),
                       _c("ctrl", "act", window=2, delay=1, cdist=[1]),
                       _c("act", "sensor", name="in_act", skip=True, window=1, delay=1, cdist=[1])],
                sup="ctrl")


FAMILIES.update(train_tie=train_tie)
FAMILIES.update(overrun_freq=overrun_freq, shadow_clash=shadow_clash)
