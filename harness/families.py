"""Hand-made configuration families that target situations random generation rarely produces (found through seeded mutants)."""


def _n(name, nid, period, delay, cdist, **kw):
    d = dict(name=name, nid=nid, period=period, delay=delay, cdist=list(cdist), advance=False, sched="F", p=nid + 2)
    d.update(kw)
    return d


def _c(out, inn, name=None, blocking=False, skip=False, jitter="L", window=1, delay=0, cdist=(0,)):
    return {"out": out, "in": inn, "name": name or out, "blocking": blocking, "skip": skip, "jitter": jitter, "window": window,
            "delay": delay, "cdist": list(cdist)}


def slow_side_node(rng):
    """A node slower than the supervisor (does not run in every partition) that reads from the supervisor and a sensor and feeds the
    supervisor: its last recorded step lies inside the compiled horizon."""
    ps = rng.choice([2, 4])
    return dict(nodes=[_n("world", 0, ps, 1, [1]), _n("sensor", 1, ps, 0, [0, 1]), _n("agent", 2, ps, 1, [1, 2]),
                       _n("est", 3, ps * rng.choice([2, 3, 4]), 1, [1, 3])],
                conns=[_c("world", "sensor", window=1, cdist=[0, 1]), _c("sensor", "agent", window=rng.choice([1, 2, 3]), delay=1, cdist=[0, 1, 2]),
                       _c("agent", "world", skip=True, window=1, cdist=[0, 1]), _c("agent", "est", name="in_agent", window=2, cdist=[0, 2]),
                       _c("sensor", "est", window=2, cdist=[1]), _c("est", "agent", skip=True, window=rng.choice([1, 2]), delay=1, cdist=[0, 1, 3])],
                sup="agent")


def slow_producer(rng):
    """A producer much slower than its reader with a window that fills late (or never within a short episode): the ring-buffer requirement
    is set by steps whose window still holds negative (default) entries."""
    pc = 2
    pp = pc * rng.choice([3, 4])
    return dict(nodes=[_n("sensor", 0, pp, 0, [0, 1, 2]), _n("ctrl", 1, pc, 0, [0, 1]), _n("plant", 2, pc, 1, [1])],
                conns=[_c("sensor", "ctrl", window=rng.choice([2, 3, 4]), delay=rng.choice([0, 1]), cdist=[0, 1, 5] if rng.random() < 0.5 else [3, 7]),
                       _c("ctrl", "plant", window=1, cdist=[0, 1]), _c("plant", "ctrl", skip=True, window=rng.choice([1, 2]), cdist=[0, 1])],
                sup="ctrl")


def long_sink(rng):
    """Sink nodes (not ancestors of the supervisor) one of which has a step that runs for many supervisor periods while the steps of the
    other sink come and go: exercises prune=False attachment of non-ancestors."""
    p = 4
    return dict(nodes=[_n("sensor", 0, p, 1, [0, 1]), _n("agent", 1, p, 1, [1]), _n("logger", 2, p // 2, 0, [0, 1]),
                       _n("render", 3, p * 4, 1, [p * rng.choice([11, 13]) + 1])],
                conns=[_c("sensor", "agent", window=2, delay=1, cdist=[0, 1]), _c("agent", "logger", window=rng.choice([1, 2]), delay=1, cdist=[0, 1]),
                       _c("agent", "render", name="in_agent", window=1, cdist=[0])],
                sup="agent")


def same_generation_pair(rng):
    """Producer and consumer at the same rate, communication delay of about one period or more: consumer step k reads producer output k-1
    (or older) while producer step k runs in the SAME generation, and the automatically sized ring buffer is exactly tight.  Names are
    chosen so that the producer sorts before its consumer (slots of a generation are visited in name order): any write that becomes
    visible inside a generation is read by the consumer (seeded change C08-b)."""
    p = rng.choice([2, 4])
    lag = p * rng.choice([1, 1, 2])
    w = rng.choice([1, 1, 2])
    return dict(nodes=[_n("a_prod", 0, p, 0, [0]), _n("b_cons", 1, p, 0, [0]), _n("c_sup", 2, 2 * p, 1, [1])],
                conns=[_c("a_prod", "b_cons", window=w, delay=lag, cdist=[lag]),
                       _c("b_cons", "c_sup", window=rng.choice([1, 2]), delay=0, cdist=[0, 1])],
                sup="c_sup")


def fast_node(rng):
    """A node running more than ten times faster than the supervisor: more than ten slots of one kind per partition (slot names
    s<kind>_<idx> reach two-digit indices; TOPOLOGICAL / GENERATIONAL supergraphs are uniform and run a kind's slots under lax.scan
    in a stored order; seeded change C01-b sorted that order lexicographically)."""
    ps = rng.choice([24, 32])
    return dict(nodes=[_n("sup", 0, ps, 1, [1, 2]), _n("a", 1, 2, 0, [0, 1]), _n("b", 2, 8, 1, [1, 2])],
                conns=[_c("a", "sup", window=2, cdist=[0, 1]), _c("b", "sup", window=1, delay=1, cdist=[1]),
                       _c("sup", "a", name="in_sup", skip=True, window=1, cdist=[0, 1]), _c("a", "b", window=2, cdist=[0, 1])],
                sup="sup")


FAMILIES = {"fast_node": fast_node, "same_generation_pair": same_generation_pair, "slow_side_node": slow_side_node, "slow_producer": slow_producer, "long_sink": long_sink}
