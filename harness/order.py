"""Order-only tier (spec RexOrder): episodes whose time stamps are not on the verification grid --
continuous delay distributions (Normal, mixtures) under the simulated clock, and wall-clock episodes
(under the gate's virtual time, so they are deterministic, or free-running).  Times are projected to integer
microseconds (monotone), only order relations are validated."""
import traceback

import jax
import numpy as onp

from . import arun, gate, probes
from .gen import build_nodes
from .probes import GRID


def us(x):
    return int(round(float(x) * 1e6))


class WorkProbe(probes.ProbeNode):
    """Probe node whose step takes (virtual or real) time: used under the wall clock."""
    work = 0.0
    startup_sleep = 0.0   # the documented startup() hook takes this long (e.g. homing a robot)

    def startup(self, graph_state, timeout=None):
        import rex.asynchronous as ra
        if self.startup_sleep > 0:
            ra.time.sleep(self.startup_sleep)
        return True

    def step(self, step_state):
        import rex.asynchronous as ra
        if self.work > 0:
            ra.time.sleep(self.work)
        return super().step(step_state)


def continuous_nodes(cfg, seed, wall=False, use_callback=True):
    """Probe nodes for cfg with the grid distributions replaced by continuous ones."""
    import distrax
    from rex.base import StaticDist
    rs = onp.random.RandomState(seed)
    nodes = build_nodes(cfg, use_callback=use_callback)
    if wall:
        for n in cfg["nodes"]:
            nd = nodes[n["name"]]
            nd.__class__ = WorkProbe
            nd.work = max(float(max(n["cdist"])) / GRID * rs.uniform(0.3, 1.0), 0.002)  # the wall clock requires steps to take time
        return nodes
    for n in cfg["nodes"]:
        loc = max(n["cdist"]) / GRID
        kind = rs.randint(3)
        if kind == 0:
            d = distrax.Normal(loc=loc * rs.uniform(0.5, 1.0), scale=loc * rs.uniform(0.05, 0.6) + 1e-3)
        elif kind == 1:
            d = distrax.MixtureSameFamily(
                mixture_distribution=distrax.Categorical(probs=onp.array([0.7, 0.3])),
                components_distribution=distrax.Normal(loc=onp.array([loc * 0.4, loc * 1.6]), scale=onp.array([loc * 0.1 + 1e-3, loc * 0.3 + 1e-3])))
        else:
            d = distrax.Deterministic(loc=loc * rs.uniform(0.2, 1.1))
        nodes[n["name"]].delay_dist = StaticDist.create(d)
    for c in cfg["conns"]:
        loc = max(max(c["cdist"]), 1) / GRID
        inp = nodes[c["in"]].inputs[c.get("name", c["out"])]
        if rs.rand() < 0.7:
            d = distrax.Normal(loc=loc * rs.uniform(0.3, 1.0), scale=loc * rs.uniform(0.1, 1.0))
        else:
            d = distrax.Deterministic(loc=loc * rs.uniform(0.0, 1.0))
        inp.delay_dist = StaticDist.create(d)
    return nodes


def project(rec, log, cfg, gs_eps):
    names = [n["name"] for n in cfg["nodes"]]
    steps, msgs, wins = {}, {}, {}
    for name in names:
        s = rec.nodes[name].steps
        steps[name] = [dict(seq=int(s.seq[j]), start=us(s.ts_start[j]), end=us(s.ts_end[j])) for j in range(len(onp.asarray(s.seq)))]
    nid2name = {n["nid"]: n["name"] for n in cfg["nodes"]}
    bynode = {}
    for e in log:
        if e["eps"] != gs_eps:
            continue
        bynode.setdefault(nid2name[e["nid"]], {})[e["seq"]] = e
    conns = {}
    for c in cfg["conns"]:
        iname = c.get("name", c["out"])
        key = f"{c['out']}>{c['in']}"
        m = rec.nodes[c["in"]].inputs[c["out"]].messages
        msgs[key] = [dict(seq_out=int(m.seq_out[j]), seq_in=int(m.seq_in[j]), sent=us(m.ts_sent[j]), recv=us(m.ts_recv[j]))
                     for j in range(len(onp.asarray(m.seq_out)))]
        w = []
        es = bynode.get(c["in"], {})
        for k in range(len(es)):
            if k not in es:
                break
            w.append([int(v) for v in es[k]["inputs"][iname]["seq"]])
        wins[key] = w
        conns[key] = dict(src=c["out"], dst=c["in"], blocking=bool(c["blocking"]), buffer=c.get("jitter", "L") != "L",
                          skip=bool(c["skip"]), window=int(c["window"]))
    return dict(cfg=dict(conns=conns), steps=steps, msgs=msgs, wins=wins)


def order_job(job):
    """job: cfg, seed, mode in {'continuous','wall'}, gated (bool), nsteps, episodes, policy."""
    from rex.constants import Clock, RealTimeFactor
    import rex.asynchronous as ra
    cfg = job["cfg"]
    wall = job["mode"] == "wall"
    S = None
    if job.get("gated", True):
        S = gate.Scheduler(seed=0, policy="random")
        if wall:
            S.tick_eps = 1e-6
        gate.install(S)
    out = dict(traces=[], events=[])
    try:
        nodes = continuous_nodes(cfg, job["seed"], wall=wall, use_callback=not wall)
        sup = nodes[cfg["sup"]]
        if wall:
            g = ra.AsyncGraph(nodes=dict(nodes), supervisor=sup, clock=Clock.WALL_CLOCK, real_time_factor=RealTimeFactor.REAL_TIME)
        else:
            g = ra.AsyncGraph(nodes=dict(nodes), supervisor=sup, clock=Clock.SIMULATED, real_time_factor=job.get("rtf", 0))
        g.set_record_settings(params=False, rng=False, inputs=False, state=False, output=False)
        gs0 = g.init(jax.random.PRNGKey(job["seed"]))
        g.warmup(gs0, jit_step=not wall)
        for ei in range(job.get("episodes", 2)):
            if S is not None:
                S.new_schedule(seed=job["seed"] * 10 + ei, policy=job.get("policy", "random"))
            probes.LOG.clear()
            gs = gs0.replace(eps=onp.int32(ei))
            gs, ss = g.reset(gs)
            for _ in range(job["nsteps"]):
                if wall:
                    ra.time.sleep(0.003 + 0.001 * (job["seed"] % 5))  # the supervisor's computation (the wall clock requires > 0)
                gs, ss = g.step(gs)
            if wall:
                ra.time.sleep(0.004)
            g.stop()
            if S is not None:
                S.quiesce()
            jax.effects_barrier()
            try:
                rec = g.get_record()
            except TypeError:
                continue  # a node / connection without a single recorded row (get_record() raises; outside the properties)
            t = project(rec, probes.LOG.snapshot(), cfg, ei)
            t["id"] = f"{job['id']}/e{ei}"
            t["first_eligible"] = not wall
            if not wall and out["traces"]:
                # same system, same initial graph state, another schedule: must agree on the common prefix (C02, off-grid)
                t["ref"] = dict(steps=out["traces"][0]["steps"], msgs=out["traces"][0]["msgs"])
            out["traces"].append(t)
            if S is not None and S.task_errors:
                out["events"].append(dict(kind="task_error", detail=repr(S.task_errors[:3])))
    except gate.LogicalDeadlock as e:
        out["events"].append(dict(kind="deadlock", detail=str(e)))
    except Exception as e:
        out["events"].append(dict(kind="exception", detail="".join(traceback.format_exception(type(e), e, e.__traceback__))[-3000:]))
    finally:
        if S is not None:
            S.disable()
    return out


def wall_lifecycle_job(job):
    """C05 under the wall clock (gate, virtual time): lifecycle histories (reset | step | run | stop ...) on one AsyncGraph.
    Every call is preceded by a short (virtual) sleep of the user thread: rex's wall clock needs every step to take positive time.
    Returns lifecycle events (logical deadlock, exception of a call, failed worker task) and order-only traces of the completed episodes."""
    from rex.constants import Clock, RealTimeFactor
    import rex.asynchronous as ra
    cfg = job["cfg"]
    S = gate.Scheduler(seed=0, policy="random")
    S.tick_eps = 1e-6
    gate.install(S)
    out = dict(runs=[])
    try:
        nodes = continuous_nodes(cfg, job["seed"], wall=True, use_callback=False)
        sup = nodes[cfg["sup"]]
        # one node's startup() hook takes 5 (virtual) seconds, far more than any phase: the episode clock must still start at 0 when the nodes start
        # (seeded change C05-h took the common start time before the startup phase)
        T0 = 5.0
        nodes[sorted(n for n in nodes if n != cfg["sup"])[0]].startup_sleep = T0
        g = ra.AsyncGraph(nodes=dict(nodes), supervisor=sup, clock=Clock.WALL_CLOCK, real_time_factor=RealTimeFactor.REAL_TIME)
        g.set_record_settings(params=False, rng=False, inputs=False, state=False, output=False)
        gs0 = g.init(jax.random.PRNGKey(job["seed"]))
        g.warmup(gs0, jit_step=False)
        eps = 0
        for ri, run in enumerate(job["runs"]):
            rr = dict(history=run["history"], sched=run["sched"], events=[], traces=[])
            out["runs"].append(rr)
            S.new_schedule(seed=run["sched"]["seed"], policy=run["sched"]["policy"])
            style, gs, started = None, None, False
            try:
                for ci, call in enumerate(run["history"]):
                    ra.time.sleep(0.003 + 0.001 * ((ci + ri) % 4))
                    if call == "reset":
                        if started:
                            eps += 1
                        probes.LOG.clear()
                        gs, _ = g.reset(gs0.replace(eps=onp.int32(eps)))
                        style, started = "step", True
                    elif call in ("step", "step!"):
                        gs, _ = g.step(gs)
                    elif call == "run":
                        if not started or style != "run":
                            if started:
                                eps += 1
                            probes.LOG.clear()
                            gs = gs0.replace(eps=onp.int32(eps))
                            style, started = "run", True
                        gs = g.run(gs)
                    elif call == "stop":
                        g.stop()
                        S.quiesce()
                        if started:
                            try:
                                rec = g.get_record()
                                t = project(rec, probes.LOG.snapshot(), cfg, eps)
                                t["id"] = f"{job['id']}/r{ri}e{eps}"
                                t["first_eligible"] = False
                                t["t0bound"] = us(T0)
                                rr["traces"].append(t)
                            except TypeError:
                                pass  # a connection that consumed nothing (outside the properties)
                            eps += 1
                            started = False
            except gate.LogicalDeadlock as e:
                rr["events"].append(dict(kind="deadlock", detail=str(e)))
                break
            except Exception as e:
                rr["events"].append(dict(kind="exception", detail="".join(traceback.format_exception(type(e), e, e.__traceback__))[-2000:]))
                break
            if S.task_errors:
                rr["events"].append(dict(kind="task_error", detail=repr(S.task_errors[:3])))
                S.task_errors.clear()
    finally:
        S.disable()
    return out
