"""./check <Cxx|setup|selftest> [--tier quick|thorough] [--replay file]"""
import argparse
import os
import subprocess
import sys
import traceback

from . import common


def setup():
    """Offline build: translate PlusCal, syntax-check every module."""
    specs = os.path.join(common.ROOT, "specs")
    rc = 0
    for f in sorted(os.listdir(specs)):
        if f.endswith(".tla"):
            p = subprocess.run(["tla-sany", f], cwd=specs, capture_output=True, text=True)
            ok = p.returncode == 0 and "error" not in (p.stdout + p.stderr).lower().replace("errors: 0", "")
            print(("ok   " if ok else "FAIL ") + f, flush=True)
            if not ok:
                print((p.stdout + p.stderr)[-1500:])
                rc = 2
    os.makedirs(common.EVIDENCE_DIR, exist_ok=True)
    os.makedirs(common.REPLAY_DIR, exist_ok=True)
    return rc


def main():
    ap = argparse.ArgumentParser()
    ap.add_argument("what")
    ap.add_argument("--tier", default=os.environ.get("VERIF_TIER", "quick"), choices=["quick", "thorough"])
    ap.add_argument("--replay", default=None)
    a = ap.parse_args()
    seed = common.seed_from_env(0)
    if a.what == "setup":
        sys.exit(setup())
    try:
        from .checks import registry

        if a.what == "selftest":
            from .checks import selftest

            sys.exit(selftest.main(a.tier, seed))
        fn = registry.CHECKS.get(a.what.upper())
        if fn is None:
            print(f"unknown check {a.what}", file=sys.stderr)
            sys.exit(2)
        if a.replay:
            from .checks import replay

            sys.exit(replay.main(a.what.upper(), a.replay))
        sys.exit(fn(a.tier, seed))
    except common.MachineryError as e:
        print("MACHINERY-ERROR:", e, file=sys.stderr)
        sys.exit(2)
    except SystemExit:
        raise
    except BaseException:
        traceback.print_exc()
        sys.exit(2)


if __name__ == "__main__":
    main()
