"""Small configurations for model checking the law (MC_RexLaw, MC_RexLawConfluence)."""
import random

from .trace import tla_cfg


def _n(name, nid, period, delay, cdist, advance=False, sched="F", p=1):
    return dict(name=name, nid=nid, period=period, delay=delay, cdist=cdist, advance=advance, sched=sched, p=p)


def _c(out, inn, blocking=False, skip=False, jitter="L", window=1, delay=0, cdist=(0,)):
    return {"out": out, "in": inn, "name": out, "blocking": blocking, "skip": skip, "jitter": jitter, "window": window,
            "delay": delay, "cdist": list(cdist)}


def handmade():
    """Every connection policy, both scheduling modes, advance, a skip cycle, rate ratios 1/2, 1, 2."""
    cfgs = []
    for sched in ("F", "P"):
        for jitter in ("L", "B"):
            for skip in (False, True):
                # sensor (fast, jittery) -> controller (slow), overrunning controller
                cfgs.append(dict(nodes=[_n("a", 0, 2, 1, [0, 1, 3], sched=sched), _n("b", 1, 4, 1, [1, 5], sched=sched)],
                                 conns=[_c("a", "b", skip=skip, jitter=jitter, window=2, delay=1, cdist=[0, 2, 5])], sup="b"))
        for skip in (False, True):
            # blocking chain with different rates, advance on/off
            for adv in (False, True):
                cfgs.append(dict(nodes=[_n("a", 0, 2, 1, [1, 3], sched=sched), _n("b", 1, 4, 1, [0, 2], advance=adv, sched=sched)],
                                 conns=[_c("a", "b", blocking=True, skip=skip, window=3, delay=1, cdist=[0, 3])], sup="b"))
        # cycle: a -> b blocking, b -> a non-blocking skipped
        cfgs.append(dict(nodes=[_n("a", 0, 4, 1, [1, 2], sched=sched), _n("b", 1, 4, 1, [0, 5], sched=sched)],
                         conns=[_c("a", "b", blocking=True, window=1, delay=1, cdist=[0, 1]),
                                _c("b", "a", skip=True, window=2, delay=0, cdist=[0, 3])], sup="b"))
        # three nodes, mixed
        cfgs.append(dict(nodes=[_n("a", 0, 2, 0, [0, 1], sched=sched), _n("b", 1, 4, 1, [1, 2], sched=sched), _n("c", 2, 4, 1, [0, 5], sched=sched)],
                         conns=[_c("a", "b", window=2, cdist=[0, 3]), _c("b", "c", blocking=True, delay=1, cdist=[1]),
                                _c("a", "c", jitter="B", skip=True, delay=1, cdist=[0, 2])], sup="c"))
    return cfgs


def mc_configs(seed, n_random=0, K=3, streams=False):
    rng = random.Random(seed)
    out = []
    cfgs = handmade()
    from .gen import gen_config

    for _ in range(n_random):
        c = gen_config(rng, n_nodes=rng.choice([2, 3]), periods=(2, 4), heavy=False, max_window=2)
        # shrink the supports so that the delay-history space stays small
        for n in c["nodes"]:
            n["cdist"] = n["cdist"][:2]
        for x in c["conns"]:
            x["cdist"] = x["cdist"][:2]
        cfgs.append(c)
    for c in cfgs:
        t = tla_cfg(c)
        t["K"] = K
        if streams:
            t["cstream"] = {n["name"]: [rng.choice(n["cdist"]) for _ in range(K + 1)] for n in c["nodes"]}
            t["mstream"] = {f"{x['out']}>{x['in']}": [rng.choice(x["cdist"]) for _ in range(K + 1)] for x in c["conns"]}
        out.append(t)
    return out
