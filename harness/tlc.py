"""Run TLC as a subprocess; parse statistics, coverage and VERDICT lines."""
import json
import os
import re
import shutil
import subprocess
import tempfile
import time

SPECS = os.path.join(os.path.dirname(os.path.dirname(os.path.abspath(__file__))), "specs")
JAR_CP = "/opt/veriftools/tla/tla2tools.jar:/opt/veriftools/tla/CommunityModules-deps.jar"


class TLCError(Exception):
    pass


def scratch(prefix="rexverif_"):
    base = os.environ.get("TMPDIR", "/tmp")
    return tempfile.mkdtemp(prefix=prefix, dir=base)


def run_tlc(module, cfg=None, workers=1, env=None, extra=(), timeout=3600, simulate=None, depth=None,
            deadlock=False, heap="4g", coverage=False, cwd_files=(), quiet=True):
    """Run TLC on specs/<module>.tla with specs/<cfg> (default <module>.cfg). Returns dict(out, rc, stats)."""
    md = scratch("tlcmeta_")
    cfg = cfg or (module + ".cfg")
    cmd = ["java", "-XX:+UseParallelGC", f"-Xmx{heap}", "-cp", JAR_CP, "tlc2.TLC",
           "-workers", str(workers), "-metadir", md, "-noGenerateSpecTE", "-config", cfg]
    if not deadlock:
        cmd += ["-deadlock"]
    if coverage:
        cmd += ["-coverage", "1"]
    if simulate is not None:
        cmd += ["-simulate", simulate]
    if depth is not None:
        cmd += ["-depth", str(depth)]
    cmd += list(extra) + [module + ".tla"]
    e = dict(os.environ)
    if env:
        e.update({k: str(v) for k, v in env.items()})
    t0 = time.time()
    try:
        p = subprocess.run(cmd, cwd=SPECS, env=e, capture_output=True, text=True, timeout=timeout)
        out, rc = p.stdout + p.stderr, p.returncode
    except subprocess.TimeoutExpired as ex:
        out = (ex.stdout or b"").decode() if isinstance(ex.stdout, bytes) else (ex.stdout or "")
        rc = -9
    finally:
        shutil.rmtree(md, ignore_errors=True)
    return dict(out=out, rc=rc, wall=time.time() - t0, stats=parse_stats(out))


def parse_stats(out):
    st = dict(generated=0, distinct=0, depth=0)
    m = re.findall(r"(\d[\d,]*) states generated, (\d[\d,]*) distinct states found", out)
    if m:
        g, d = m[-1]
        st["generated"] = int(g.replace(",", ""))
        st["distinct"] = int(d.replace(",", ""))
    m = re.findall(r"The depth of the complete state graph search is (\d+)", out)
    if m:
        st["depth"] = int(m[-1])
    st["invariant_violated"] = re.findall(r"Invariant (\S+) is violated", out)
    st["property_violated"] = re.findall(r"(?:Temporal|Action) propert\w+ (\S+) (?:is|was) violated", out)
    st["error"] = [l for l in out.splitlines() if l.startswith("Error:")]
    st["finished"] = "Model checking completed" in out or "Finished in" in out
    return st


def parse_verdicts(out):
    """VERDICT|tid|id|accept/reject|clause|detail  (printed through PrintT as a TLA+ string)."""
    res = []
    for line in out.splitlines():
        line = line.strip()
        if line.startswith('"VERDICT|'):
            body = line[1:-1] if line.endswith('"') else line[1:]
            parts = body.split("|", 5)
            if len(parts) >= 6:
                res.append(dict(tid=int(parts[1]), id=parts[2], verdict=parts[3], clause=parts[4],
                                detail=parts[5].replace('\\"', '"')))
    return res


def validate_traces(traces, module="RexTrace", cfg=None, timeout=3600, keep=None):
    """Write traces (list of dicts) to a scratch JSON file, run the trace spec, return verdict list
    (one per trace, in order). Raises TLCError on machinery failure."""
    if not traces:
        return [], dict(generated=0, distinct=0, depth=0), 0.0
    d = scratch("traces_")
    path = os.path.join(d, "traces.json")
    try:
        with open(path, "w") as f:
            json.dump(traces, f)
        r = run_tlc(module, cfg=cfg, workers=1, env={"TRACE_FILE": path}, timeout=timeout)
        vs = parse_verdicts(r["out"])
        if len(vs) != len(traces):
            if keep:
                shutil.copy(path, keep)
            raise TLCError(f"TLC produced {len(vs)} verdicts for {len(traces)} traces (rc={r['rc']}):\n" + r["out"][-3000:])
        return vs, r["stats"], r["wall"]
    finally:
        shutil.rmtree(d, ignore_errors=True)


def stream_tlc(module, cfg, prefix, max_lines, simulate="num=100000000", depth=10, seed=1, env=None, timeout=300):
    """Run TLC in simulation mode and collect at most max_lines stdout lines starting with `prefix`; then stop TLC.
    (TLC 1.8's num= bound counts differently from behaviours printed; the reader bounds the run instead.)"""
    md = scratch("tlcmeta_")
    cmd = ["java", "-XX:+UseParallelGC", "-Xmx2g", "-cp", JAR_CP, "tlc2.TLC", "-workers", "1", "-metadir", md, "-noGenerateSpecTE",
           "-config", cfg, "-deadlock", "-simulate", simulate, "-depth", str(depth), "-seed", str(seed), module + ".tla"]
    e = dict(os.environ)
    if env:
        e.update({k: str(v) for k, v in env.items()})
    lines, tail = [], []
    t0 = time.time()
    p = subprocess.Popen(cmd, cwd=SPECS, env=e, stdout=subprocess.PIPE, stderr=subprocess.STDOUT, text=True)
    try:
        for line in p.stdout:
            if line.startswith(prefix):
                lines.append(line.rstrip("\n"))
                if len(lines) >= max_lines:
                    break
            else:
                tail.append(line)
                tail = tail[-60:]
            if time.time() - t0 > timeout:
                break
    finally:
        p.kill()
        p.wait()
        shutil.rmtree(md, ignore_errors=True)
    return lines, "".join(tail)
