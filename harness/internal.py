"""Internal traces: run the real AsyncGraph under the coarse gate and produce a RexAsyncTrace trace (configuration, delay
streams, call history, the schedule as <<thread, kind of scheduling point>>) plus the real episode record for comparison."""
import jax
import numpy as onp

from . import arun, gate, gen, probes, trace


def rexasync_cfg(cfg, harness, streams_len=80):
    """Configuration in the shape RexAsync expects, with the delay streams the real distributions will produce."""
    jax.effects_barrier()
    names = [n["name"] for n in cfg["nodes"]]
    tag = 0
    tags = {}
    for n in cfg["nodes"]:
        tag += 1
        tags[("n", n["name"])] = tag
    for c in cfg["conns"]:
        tag += 1
        tags[("c", trace.conn_id(c))] = tag
    nodes = harness.nodes
    out_nodes = {}
    for n in cfg["nodes"]:
        # iteration order of the WRAPPER's inputs / outputs (wrap_connections fills them output node by output node)
        w = harness.graph._async_nodes[n["name"]]
        ins = [f"{cw.connection.output_node.name}>{n['name']}" for cw in w.inputs.values()]
        outs = [f"{n['name']}>{cw.connection.input_node.name}" for cw in w.outputs.values()]
        out_nodes[n["name"]] = dict(period=n["period"], delay=n["delay"], advance=bool(n.get("advance", False)), freq=(n.get("sched", "F") == "F"),
                                    ins=ins, outs=outs)
    conns = {trace.conn_id(c): dict(src=c["out"], dst=c["in"], blocking=bool(c["blocking"]), skip=bool(c["skip"]), buffer=(c.get("jitter", "L") == "B"),
                                    window=int(c["window"]), delay=c["delay"]) for c in cfg["conns"]}
    cstream, mstream = {}, {}
    for n in cfg["nodes"]:
        rngs = probes.RESET_LOG.get(tags[("n", n["name"])], [])
        cstream[n["name"]] = probes.grid_stream(n["cdist"], rngs[-1], streams_len)
    for c in cfg["conns"]:
        rngs = probes.RESET_LOG.get(tags[("c", trace.conn_id(c))], [])
        mstream[trace.conn_id(c)] = probes.grid_stream(c["cdist"], rngs[-1], streams_len)
    order = list(harness.graph._async_nodes.keys())
    return dict(nodes=out_nodes, conns=conns, sup=cfg["sup"], order=order, cstream=cstream, mstream=mstream)


def thread_id(name):
    if name == "user":
        return "user"
    if "/" in name:
        dst, src = name.split("/", 1)
        return f"{src}>{dst}"
    return name


def internal_trace(cfg, history, seed=0, sched_seed=0, policy="random"):
    S = gate.Scheduler(seed=0, policy="random", deque_points=False)
    gate.install(S)
    h = arun.AsyncHarness(cfg, seed=seed)
    S.new_schedule(seed=sched_seed, policy=policy)
    eps, _ = arun.run_history(h, history, on_boundary=None)
    events = [(thread_id(n), lab) for n, lab in S.choice_labels if lab != "quiesce"]
    S.quiesce()
    tcfg = rexasync_cfg(cfg, h)
    S.disable()
    rec = eps[0]["record"] if eps and "record" in eps[0] else None
    return dict(cfg=tcfg, hist=[c.replace("step!", "step") for c in history], events=[[t, k] for t, k in events]), rec


def internal_job(job):
    """One fresh AsyncGraph per (history, schedule): coarse-gate run -> RexAsyncTrace trace + the real record of the last episode."""
    out = []
    cfg = job["cfg"]
    S = gate.Scheduler(seed=0, policy="random", deque_points=False)
    gate.install(S)
    for ri, run in enumerate(job["runs"]):
        h = arun.AsyncHarness(cfg, seed=job.get("seed", 0))
        S.new_schedule(seed=run["sched"]["seed"], policy=run["sched"]["policy"])
        try:
            eps, _ = arun.run_history(h, run["history"], on_boundary=None)
        except gate.LogicalDeadlock as e:
            out.append(dict(id=f"{job['id']}/r{ri}", deadlock=str(e), history=run["history"], sched=run["sched"]))
            break
        except Exception as e:  # a lifecycle call raised
            import traceback
            out.append(dict(id=f"{job['id']}/r{ri}", deadlock="exception in a lifecycle call: " + "".join(traceback.format_exception(type(e), e, e.__traceback__))[-1500:],
                            history=run["history"], sched=run["sched"]))
            break
        events = [[thread_id(n), lab] for n, lab in S.choice_labels if lab != "quiesce"]
        S.quiesce()
        tcfg = rexasync_cfg(cfg, h)
        rec = eps[-1].get("record") if eps else None
        out.append(dict(id=f"{job['id']}/r{ri}", trace=dict(cfg=tcfg, hist=[c.replace("step!", "step") for c in run["history"]], events=events),
                        record=rec, history=run["history"], sched=run["sched"]))
    S.disable()
    return dict(runs=out)


def compare_records(model, rec):
    """model: {'steps': {n: [..]}, 'msgs': {x: [..]}} printed by RexAsyncTrace; rec: projected real record. Returns list of differences."""
    diffs = []
    for n, rows in rec["steps"].items():
        m = model["steps"].get(n, [])
        if len(m) != len(rows):
            diffs.append(f"{n}: {len(m)} reconstructed steps, {len(rows)} recorded")
        for a, b in zip(m, rows):
            if (a["tick"], a["start"], a["end"], a["sched"], a["tsmax"], a["psb"]) != (b["seq"], b["start"], b["end"], b["sched"], b["tsmax"], b["ps"]):
                diffs.append(f"{n}[{b['seq']}]: model {a} record {b}")
                break
    for x, rows in rec["msgs"].items():
        m = model["msgs"].get(x, [])
        # the record only keeps messages consumed by recorded steps; the model's list may be longer by the tail
        for a, b in zip(m, rows):
            if (a["out"], a["in"], a["sent"], a["recv"]) != (b["seq_out"], b["seq_in"], b["sent"], b["recv"]):
                diffs.append(f"{x}[{b['seq_out']}]: model {a} record {b}")
                break
        if len(m) < len(rows):
            diffs.append(f"{x}: {len(m)} reconstructed messages, {len(rows)} recorded")
    return diffs
