"""Shared infrastructure: job pool (one subprocess per job), evidence files, known findings, verdict printing."""
import json
import os
import subprocess
import sys
import tempfile
import time
from concurrent.futures import ThreadPoolExecutor

ROOT = os.path.dirname(os.path.dirname(os.path.abspath(__file__)))
_SCRATCH = os.environ.get("REX_REPO", "/repo") != "/repo"   # experimenting on a scratch copy: keep the committed evidence untouched
EVIDENCE_DIR = os.path.join(ROOT, "evidence_scratch" if _SCRATCH else "evidence")
REPLAY_DIR = os.path.join(ROOT, "replays")
KNOWN_FINDINGS = os.path.join(ROOT, "known_findings.json")
NPROC = int(os.environ.get("VERIF_NPROC", "16"))


def seed_from_env(default=0):
    try:
        return int(os.environ.get("VERIF_SEED", default))
    except ValueError:
        return default


class MachineryError(Exception):
    """Harness/TLC failure (exit 2), never a verdict."""


def run_jobs(jobs, nproc=None, timeout=600, desc=""):
    """Each job (a JSON-able dict with key 'kind') is executed by `python -m harness.worker` in its own process.
    Returns list of results (dict) in job order; a result has 'ok' False and 'error'/'timeout' on failure."""
    nproc = nproc or NPROC
    d = tempfile.mkdtemp(prefix="rexjobs_", dir=os.environ.get("TMPDIR", "/tmp"))
    env = dict(os.environ)
    env.setdefault("JAX_PLATFORMS", "cpu")
    env["PYTHONPATH"] = os.environ.get("REX_REPO", "/repo") + ":" + ROOT
    env.setdefault("PYTHONHASHSEED", "0")

    def one(i_job):
        i, job = i_job
        jf = os.path.join(d, f"job{i}.json")
        of = os.path.join(d, f"out{i}.json")
        with open(jf, "w") as f:
            json.dump(job, f)
        t0 = time.time()
        try:
            p = subprocess.run([sys.executable, "-W", "ignore", "-m", "harness.worker", jf, of], cwd=ROOT, env=env,
                               capture_output=True, text=True, timeout=job.get("timeout", timeout))
        except subprocess.TimeoutExpired:
            return dict(ok=False, timeout=True, job=job, wall=time.time() - t0)
        if not os.path.exists(of):
            return dict(ok=False, error=(p.stderr or "")[-4000:], job=job, wall=time.time() - t0)
        with open(of) as f:
            res = json.load(f)
        res["wall"] = time.time() - t0
        res["job"] = job
        return res

    try:
        with ThreadPoolExecutor(max_workers=nproc) as ex:
            out = list(ex.map(one, list(enumerate(jobs))))
    finally:
        import shutil

        shutil.rmtree(d, ignore_errors=True)
    return out


# ----------------------------------------------------------------------------------------------
class Known:
    def __init__(self):
        self.entries = []
        if os.path.exists(KNOWN_FINDINGS):
            with open(KNOWN_FINDINGS) as f:
                self.entries = json.load(f).get("findings", [])

    def match(self, prop, sig):
        """sig: dict describing a violation; an entry matches if every key of entry['match'] equals sig[key]."""
        for e in self.entries:
            if e.get("property") != prop or e.get("status") != "known":
                continue
            if all(sig.get(k) == v for k, v in e.get("match", {}).items()):
                return e
        return None


class Report:
    """Collects what a check run covered; prints VIOLATION / KNOWN-FINDING lines; writes the evidence file."""

    def __init__(self, prop, tier, seed, level="model_checking"):
        self.prop, self.tier, self.seed, self.level = prop, tier, seed, level
        self.t0 = time.time()
        self.cov = dict(states=0, transitions=0, traces_validated_against_impl=0, samples=[], evaluations=0,
                        distinct_nontrivial=0, rule="", exhaustive=False)
        self.assumptions = []
        self.violations = 0
        self.known_hits = {}
        self.notes = []
        self.known = Known()
        self._nontrivial = set()
        self._nrep = 0

    def add_tlc(self, stats):
        self.cov["states"] += int(stats.get("distinct", 0))
        self.cov["transitions"] += int(stats.get("generated", 0))

    def sample(self, s, limit=6):
        if len(self.cov["samples"]) < limit:
            self.cov["samples"].append(s)

    def nontrivial(self, key):
        self._nontrivial.add(key)

    def note(self, s):
        self.notes.append(s)
        print("NOTE:", s, flush=True)

    def violation(self, sig, replay_obj, text=""):
        """sig: dict used for known-finding matching. Returns True if it is a new violation."""
        k = self.known.match(self.prop, sig)
        if k is not None:
            key = k.get("id", json.dumps(k.get("match"), sort_keys=True))
            if key not in self.known_hits:
                self.known_hits[key] = 0
                print(f"KNOWN-FINDING: property={self.prop} {k.get('text', '')}", flush=True)
            self.known_hits[key] += 1
            return False
        os.makedirs(REPLAY_DIR, exist_ok=True)
        self._nrep += 1
        path = os.path.join(REPLAY_DIR, f"{self.prop}-{self.tier}-{self.seed}-{self._nrep}.json")
        with open(path, "w") as f:
            json.dump(dict(property=self.prop, signature=sig, text=text, replay=replay_obj), f)
        self.violations += 1
        print(f"VIOLATION property={self.prop} replay={path}", flush=True)
        if text:
            print("  " + text[:1500], flush=True)
        return True

    def finish(self, extra_cov=None):
        cov = dict(self.cov)
        cov["distinct_nontrivial"] = len(self._nontrivial)
        if extra_cov:
            cov.update(extra_cov)
        cov["known_findings_hit"] = self.known_hits
        cov["notes"] = self.notes[:50]
        ev = dict(property_id=self.prop, tier=self.tier, seed=int(self.seed), level=self.level, coverage=cov,
                  assumptions=self.assumptions, wall_s=round(time.time() - self.t0, 2), violations=self.violations)
        os.makedirs(EVIDENCE_DIR, exist_ok=True)
        with open(os.path.join(EVIDENCE_DIR, f"{self.prop}.json"), "w") as f:
            json.dump(ev, f, indent=1, default=str)
        print(f"{self.prop} [{self.tier}] states={cov.get('states')} traces={cov.get('traces_validated_against_impl')} "
              f"evaluations={cov.get('evaluations')} nontrivial={cov['distinct_nontrivial']} violations={self.violations} "
              f"wall={ev['wall_s']}s", flush=True)
        return 1 if self.violations else 0
