from . import asyncchecks, compiledchecks, smallchecks

CHECKS = {
    "C01": compiledchecks.c01,
    "C02": asyncchecks.c02,
    "C03": asyncchecks.c03,
    "C04": asyncchecks.c04,
    "C05": asyncchecks.c05,
    "C06": asyncchecks.c06,
    "C07": compiledchecks.c07,
    "C08": compiledchecks.c08,
    "C09": compiledchecks.c09,
    "C10": smallchecks.c10,
    "C12": smallchecks.c12,
    "C13": compiledchecks.c13,
    "C14": smallchecks.c14,
    "C16": smallchecks.c16,
    "C18": smallchecks.c18,
    "C19": smallchecks.c19,
}
