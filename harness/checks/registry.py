from . import asyncchecks

CHECKS = {
    "C02": asyncchecks.c02,
    "C03": asyncchecks.c03,
    "C04": asyncchecks.c04,
    "C05": asyncchecks.c05,
    "C06": asyncchecks.c06,
}
