"""Shared engine of the checks that validate executions of the threaded runtime against RexLaw (RexTrace)."""
import json
import os
from concurrent.futures import ThreadPoolExecutor

from .. import common, tlc

# failing clause of RexTrace -> properties whose statement it is part of
CLAUSE_PROPS = {
    "StepSeqGapFree": {"C03"},
    "EpisodeCounter": {"C05"},
    "ScheduledTime": {"C04", "C13"},   # header fields that exist only in the record: "what a record contains is what that step used"
    "BlockingArrivalMax": {"C04", "C13"},   # header fields that exist only in the record: "what a record contains is what that step used"
    "PrevEnd": {"C04", "C13"},   # header fields that exist only in the record: "what a record contains is what that step used"
    "SchedulingDrift": {"C04", "C13"},   # header fields that exist only in the record: "what a record contains is what that step used"
    "StartTime": {"C04", "C03", "C13"},
    "CompDelaySupport": {"C04"},
    "EndTime": {"C04", "C13"},
    "SentHeader": {"C04", "C13"},
    "BlockingGroup": {"C03"},
    "ConsumerStep": {"C03"},
    "MsgSeqGapFree": {"C03"},
    "MsgCausal": {"C03"},
    "MsgFifo": {"C03"},
    "MsgSentIsEnd": {"C04"},
    "MsgRecvIsSentPlusDelay": {"C04", "C03"},
    "MsgDelayField": {"C04", "C13"},
    "MsgFromUnrecordedStep": {"C03", "C13"},
    "Deterministic": {"C02"},
    "DeterministicMsg": {"C02"},
    "ObservedSeq": {"C02"},
    "ObservedTs": {"C02"},
    "ObservedState": {"C02"},
    "ObservedRng": {"C02"},
    "ObservedWindow": {"C02", "C03"},
    "RecordStateBefore": {"C13"},
    "RecordWindow": {"C13", "C03"},
    "RecordOutput": {"C13"},
    "RecordRngChain": {"C13"},
    "RecordMessagesComplete": {"C13"},
    "RecordParams": {"C13"},
    "InertLog": {"C13"},
    "ExactlyOnce": {"C06"},
    "ExactlyOnce_MissingExecution": {"C06"},
    "ExactlyOnce_ExtraExecution": {"C06"},
    "StepEps": {"C05", "C13"},
    "StepTs": {"C04", "C13"},
    "StepState": {"C13", "C02"},
    "StepParams": {"C13"},
    "StepRng": {"C13", "C02"},
    "StepWindow": {"C03", "C13"},
    "StepOutput": {"C13", "C02"},
    "Stuck_RecordedStepNotTimable": {"C03"},
    "Stuck_RecordedStepNotExecutable": {"C03"},
}


def validate_parallel(traces, chunks=8, module="RexTrace"):
    """Validate traces with several TLC processes in parallel. Returns (verdicts in order, stats)."""
    if not traces:
        return [], dict(generated=0, distinct=0)
    chunks = max(1, min(chunks, (len(traces) + 3) // 4))
    parts = [traces[i::chunks] for i in range(chunks)]
    idx = [list(range(len(traces)))[i::chunks] for i in range(chunks)]
    with ThreadPoolExecutor(max_workers=chunks) as ex:
        res = list(ex.map(lambda p: tlc.validate_traces(p, module=module), parts))
    verdicts = [None] * len(traces)
    stats = dict(generated=0, distinct=0)
    for ids, (vs, st, _w) in zip(idx, res):
        for i, v in zip(ids, vs):
            verdicts[i] = v
        stats["generated"] += st["generated"]
        stats["distinct"] += st["distinct"]
    return verdicts, stats


def run_campaign(rep: common.Report, jobs, mine, timeout=900, extra_violation=None):
    """Run async jobs, validate every trace, report violations of the clauses in `mine` (a set of property ids,
    normally {rep.prop}). Lifecycle events (deadlock/exception/task_error) are passed to extra_violation(event, job, run)
    which returns True if it reported them. Returns list of (job, run, trace, verdict)."""
    results = common.run_jobs(jobs, timeout=timeout)
    flat = []
    for res in results:
        job = res["job"]
        if not res.get("ok"):
            if res.get("timeout"):
                rep.note(f"job {job.get('id')} exceeded its wall-clock budget (inconclusive, see DESIGN 3.4)")
                continue
            raise common.MachineryError(f"job {job.get('id')} failed:\n{res.get('error', '')[-3000:]}")
        for run in res["runs"]:
            for ev in run["events"]:
                handled = extra_violation(ev, job, run) if extra_violation else False
                if not handled and ev["kind"] in ("deadlock", "exception", "task_error"):
                    rep.note(f"job {job.get('id')}: {ev['kind']} (not this property's clause): {ev['detail'][:200]}")
                elif not handled and ev["kind"] == "watchdog":
                    rep.note(f"job {job.get('id')}: watchdog expiry in free-running mode (inconclusive): {ev['detail']}")
            for t, m in zip(run["traces"], run["meta"]):
                flat.append((job, run, t, m))
    traces = [f[2] for f in flat]
    verdicts, stats = validate_parallel(traces)
    rep.add_tlc(stats)
    rep.cov["traces_validated_against_impl"] += len(traces)
    rep.cov["evaluations"] += len(traces)
    out = []
    for (job, run, t, m), v in zip(flat, verdicts):
        out.append((job, run, t, m, v))
        if v["verdict"] == "accept":
            continue
        props = CLAUSE_PROPS.get(v["clause"], set())
        if props & mine:
            sig = dict(clause=v["clause"])
            replay = dict(kind="async_trace", job={k: job[k] for k in job if k != "runs"}, run=dict(history=run["history"], sched=run.get("sched")),
                          trace_id=t["id"], verdict=v)
            rep.violation(sig, replay, text=f"trace {t['id']} rejected by RexTrace clause {v['clause']}: {v['detail'][:700]}")
        else:
            rep.note(f"trace {t['id']} rejected by clause {v['clause']} which belongs to {sorted(props)}; not examined further here")
    return out


def run_order_campaign(rep: common.Report, jobs, timeout=600):
    """Order-only tier (RexOrder): continuous-distribution and wall-clock episodes; every clause belongs to C03."""
    results = common.run_jobs(jobs, timeout=timeout)
    flat = []
    for res in results:
        job = res["job"]
        if not res.get("ok"):
            if res.get("timeout"):
                rep.note(f"order job {job.get('id')} exceeded its wall-clock budget (inconclusive)")
                continue
            raise common.MachineryError(f"order job {job.get('id')} failed:\n{res.get('error', '')[-3000:]}")
        for ev in res["events"]:
            rep.note(f"order job {job.get('id')}: {ev['kind']} (lifecycle, left to C05): {ev['detail'][-300:]}")
        for t in res["traces"]:
            flat.append((job, t))
    traces = [t for _, t in flat]
    verdicts, stats = validate_parallel(traces, module="RexOrder")
    rep.add_tlc(stats)
    rep.cov["traces_validated_against_impl"] += len(traces)
    rep.cov["evaluations"] += len(traces)
    n_acc = 0
    for (job, t), v in zip(flat, verdicts):
        if v["verdict"] == "accept":
            n_acc += 1
            if any(len(m) > 2 for m in t["msgs"].values()):
                rep.nontrivial(t["id"])
            continue
        replay = dict(kind="order_trace", job=job, trace_id=t["id"], verdict=v)
        mine = {"DeterministicAcrossSchedules": "C02"}.get(v["clause"], "C03")
        if mine != rep.prop:
            rep.note(f"order trace {t['id']} rejected by clause {v['clause']} which belongs to {mine}; not examined further here")
            continue
        rep.violation(dict(clause="order:" + v["clause"]), replay,
                      text=f"trace {t['id']} ({job['mode']}) rejected by RexOrder clause {v['clause']}: {v['detail'][:700]}")
    return dict(order_traces=len(traces), order_accepted=n_acc,
                by_mode={m: sum(1 for j, _ in flat if j["mode"] == m) for m in ("continuous", "wall")})
