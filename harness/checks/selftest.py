"""./check selftest — demonstrates that the specifications are bound to the traces (non-vacuity): correct traces are accepted, the same
traces with one field corrupted / one event removed are rejected by the expected clause."""
import copy
import json
import random

from .. import common, tlc
from . import asyncchecks, engine, internalchecks


def main(tier, seed):
    ok = True

    def expect(name, cond, detail=""):
        nonlocal ok
        print(("ok   " if cond else "FAIL ") + name + (" " + str(detail)[:200] if not cond else ""), flush=True)
        ok = ok and cond

    cfg = asyncchecks.double_tie_config(0)
    # 1. RexTrace: a real episode, then corrupted copies
    res = common.run_jobs([dict(kind="async", id="st", cfg=cfg, seed=1, gate=False, runs=[dict(history=asyncchecks._hist_step(5))], timeout=600)])[0]
    t = res["runs"][0]["traces"][0]
    muts = []
    a = copy.deepcopy(t); a["id"] = "start+1"; a["steps"]["a"][2]["start"] += 1; muts.append((a, "StartTime"))
    b = copy.deepcopy(t); b["id"] = "recv-1"; b["msgs"]["s>a"][1]["recv"] -= 1; muts.append((b, None))
    c = copy.deepcopy(t); c["id"] = "seq_in+1"; c["msgs"]["s>a"][-1]["seq_in"] += 1; muts.append((c, None))
    d = copy.deepcopy(t); d["id"] = "dup-exec"; d["log"]["s"].insert(1, copy.deepcopy(d["log"]["s"][0])); muts.append((d, "ExactlyOnce"))
    e = copy.deepcopy(t); e["id"] = "window"; e["log"]["a"][1]["wins"]["s>a"][-1]["h"] += 1; muts.append((e, "StepWindow"))
    f = copy.deepcopy(t); f["id"] = "state"; f["steps"]["s"][3]["h"] += 1; muts.append((f, "RecordStateBefore"))
    vs, _ = engine.validate_parallel([t] + [m for m, _ in muts])
    expect("RexTrace accepts the real episode", vs[0]["verdict"] == "accept", vs[0])
    for (m, clause), v in zip(muts, vs[1:]):
        expect(f"RexTrace rejects '{m['id']}'" + (f" by {clause}" if clause else ""), v["verdict"] == "reject" and (clause is None or v["clause"] == clause), v)
    # 2. RexAsyncTrace: a real schedule, then the same schedule with one event removed / one thread swapped
    rj = common.run_jobs([dict(kind="pyfunc", module="harness.internal", func="internal_job", id="sti", cfg=cfg, seed=1,
                               runs=[dict(history=["reset", "step", "stop"], sched=dict(seed=3, policy="random"))], timeout=600)])[0]
    it = rj["runs"][0]
    good = internalchecks._validate(it)
    expect("RexAsyncTrace accepts the real schedule", good["status"] == "accepted" and not good["record_diffs"], good)
    it2 = copy.deepcopy(it); k = len(it2["trace"]["events"]) // 2; del it2["trace"]["events"][k]
    expect("RexAsyncTrace rejects the schedule with one event removed", internalchecks._validate(it2)["status"] == "rejected")
    it3 = copy.deepcopy(it)
    idx = [i for i, ev in enumerate(it3["trace"]["events"]) if ev[0] == "s" and ev[1] == "lock"][2]
    it3["trace"]["events"][idx][1] = "fut.result"
    expect("RexAsyncTrace rejects a wrong kind of scheduling point", internalchecks._validate(it3)["status"] == "rejected")
    print("SELFTEST", "passed" if ok else "FAILED")
    return 0 if ok else 1
