"""./check selftest — demonstrates that the specifications are bound to the traces (non-vacuity): correct traces are accepted, the same
traces with one field corrupted / one event removed are rejected by the expected clause."""
import copy
import json
import random

from .. import common, tlc
from . import asyncchecks, engine, internalchecks


def main(tier, seed):
    ok = True

    def expect(name, cond, detail=""):
        nonlocal ok
        print(("ok   " if cond else "FAIL ") + name + (" " + str(detail)[:200] if not cond else ""), flush=True)
        ok = ok and cond

    cfg = asyncchecks.double_tie_config(0)
    # 1. RexTrace: a real episode, then corrupted copies
    res = common.run_jobs([dict(kind="async", id="st", cfg=cfg, seed=1, gate=False, runs=[dict(history=asyncchecks._hist_step(5))], timeout=600)])[0]
    t = res["runs"][0]["traces"][0]
    muts = []
    a = copy.deepcopy(t); a["id"] = "start+1"; a["steps"]["a"][2]["start"] += 1; muts.append((a, "StartTime"))
    b = copy.deepcopy(t); b["id"] = "recv-1"; b["msgs"]["s>a"][1]["recv"] -= 1; muts.append((b, None))
    c = copy.deepcopy(t); c["id"] = "seq_in+1"; c["msgs"]["s>a"][-1]["seq_in"] += 1; muts.append((c, None))
    d = copy.deepcopy(t); d["id"] = "dup-exec"; d["log"]["s"].insert(1, copy.deepcopy(d["log"]["s"][0])); muts.append((d, "ExactlyOnce"))
    e = copy.deepcopy(t); e["id"] = "window"; e["log"]["a"][1]["wins"]["s>a"][-1]["h"] += 1; muts.append((e, "StepWindow"))
    f = copy.deepcopy(t); f["id"] = "state"; f["steps"]["s"][3]["h"] += 1; muts.append((f, "RecordStateBefore"))
    vs, _ = engine.validate_parallel([t] + [m for m, _ in muts])
    expect("RexTrace accepts the real episode", vs[0]["verdict"] == "accept", vs[0])
    for (m, clause), v in zip(muts, vs[1:]):
        expect(f"RexTrace rejects '{m['id']}'" + (f" by {clause}" if clause else ""), v["verdict"] == "reject" and (clause is None or v["clause"] == clause), v)
    # 2. RexAsyncTrace: a real schedule, then the same schedule with one event removed / one thread swapped
    rj = common.run_jobs([dict(kind="pyfunc", module="harness.internal", func="internal_job", id="sti", cfg=cfg, seed=1,
                               runs=[dict(history=["reset", "step", "stop"], sched=dict(seed=3, policy="random"))], timeout=600)])[0]
    it = rj["runs"][0]
    good = internalchecks._validate(it)
    expect("RexAsyncTrace accepts the real schedule", good["status"] == "accepted" and not good["record_diffs"], good)
    it2 = copy.deepcopy(it); k = len(it2["trace"]["events"]) // 2; del it2["trace"]["events"][k]
    expect("RexAsyncTrace rejects the schedule with one event removed", internalchecks._validate(it2)["status"] == "rejected")
    it3 = copy.deepcopy(it)
    idx = [i for i, ev in enumerate(it3["trace"]["events"]) if ev[0] == "s" and ev[1] == "lock"][2]
    it3["trace"]["events"][idx][1] = "fut.result"
    expect("RexAsyncTrace rejects a wrong kind of scheduling point", internalchecks._validate(it3)["status"] == "rejected")
    # 3. RexSchedule / RexRun: a real compiled graph (recorded, two episodes) and one jitted rollout, then corrupted copies
    from . import compiledchecks as cc
    cj = dict(kind="pyfunc", module="harness.compiled_jobs", func="run_job", id="stc", cfg=cfg, seed=2, source="record", match_async=True,
              modes=[["mcs", True, {}]], runs=[dict(eps=0, history=["rollout:99"])],
              histories=[asyncchecks._hist_step(6), asyncchecks._hist_run(5)], timeout=900)
    cr = common.run_jobs([cj])[0]
    if not cr.get("ok") or not cr.get("runs"):
        expect("compiled job ran", False, cr.get("error", cr))
    else:
        st, rt = cr["static"][0], cr["runs"][0]
        s1 = copy.deepcopy(st); s1["id"] = "sched-window"
        g = next(g for g in s1["gens"] if g["slots"] and any(sl["wins"] for sl in g["slots"]))
        sl = next(sl for sl in g["slots"] if sl["wins"]); a0 = sorted(sl["wins"])[0]; sl["wins"][a0][-1]["seq"] += 1
        s2 = copy.deepcopy(st); s2["id"] = "sched-dup"
        g2 = next(g for g in s2["gens"] if g["slots"] and not g["last"]); g2["slots"].append(copy.deepcopy(g2["slots"][0]))
        vs, _ = engine.validate_parallel([st, s1, s2], module="RexSchedule")
        expect("RexSchedule accepts the real Graph.timings", vs[0]["verdict"] == "accept", vs[0])
        expect("RexSchedule rejects a shifted window entry", vs[1]["verdict"] == "reject", vs[1])
        expect("RexSchedule rejects a slot scheduled twice", vs[2]["verdict"] == "reject", vs[2])
        r1 = copy.deepcopy(rt); r1["id"] = "run-payload"
        le = next(e for e in r1["log"] if any(w and w[-1]["seq"] >= 0 for w in e["wins"].values()))
        a1 = next(a for a, w in le["wins"].items() if w and w[-1]["seq"] >= 0); le["wins"][a1][-1]["h"] += 1
        r2 = copy.deepcopy(rt); r2["id"] = "run-dup"; r2["log"].insert(1, copy.deepcopy(r2["log"][0]))
        r3 = copy.deepcopy(rt); r3["id"] = "run-ref"
        k3 = next(k for k, v in r3["ref"].items() if len(v) > 1); r3["ref"][k3][1]["h"] += 1
        vs, _ = engine.validate_parallel([rt, r1, r2, r3], module="RexRun")
        expect("RexRun accepts the real compiled replay of the recorded episode", vs[0]["verdict"] == "accept", vs[0])
        expect("RexRun rejects a changed window payload", vs[1]["verdict"] == "reject" and vs[1]["clause"] in ("ReadsRing", "StepOutput", "PayloadOfNamedSeq", "MatchesAsync_Window"), vs[1])
        expect("RexRun rejects a duplicated execution", vs[2]["verdict"] == "reject" and vs[2]["clause"].startswith("ExactlyOnce"), vs[2])
        expect("RexRun rejects a changed asynchronous reference (C01)", vs[3]["verdict"] == "reject" and vs[3]["clause"].startswith("MatchesAsync"), vs[3])
    # 4. RexOrder: a real continuous-distribution episode pair, then corrupted copies
    oj = common.run_jobs([dict(kind="pyfunc", module="harness.order", func="order_job", id="sto", cfg=cfg, seed=3, mode="continuous", nsteps=5, episodes=2,
                               timeout=600)])[0]
    if not oj.get("ok") or len(oj.get("traces", [])) < 2:
        expect("order job ran", False, oj.get("error", oj))
    else:
        o0, o1 = oj["traces"][0], oj["traces"][1]
        x = next(k for k, v in o0["msgs"].items() if len(v) > 2)
        m1 = copy.deepcopy(o0); m1["id"] = "order-fifo"; m1["msgs"][x][2]["recv"] = m1["msgs"][x][1]["recv"] - 1
        m2 = copy.deepcopy(o1); m2["id"] = "order-det"; m2["steps"][o1["cfg"]["conns"][x]["dst"]][1]["start"] += 1; m2["steps"][o1["cfg"]["conns"][x]["dst"]][1]["end"] += 1
        vs, _ = engine.validate_parallel([o0, o1, m1, m2], module="RexOrder")
        expect("RexOrder accepts two schedules of a continuous-delay episode", vs[0]["verdict"] == "accept" and vs[1]["verdict"] == "accept", vs[:2])
        expect("RexOrder rejects an arrival that goes backwards", vs[2]["verdict"] == "reject", vs[2])
        expect("RexOrder rejects a run that differs from the reference schedule", vs[3]["verdict"] == "reject", vs[3])
    print("SELFTEST", "passed" if ok else "FAILED")
    return 0 if ok else 1
