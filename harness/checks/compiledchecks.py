def c06_compiled(rep, tier, seed):
    rep.cov["compiled_part"] = "pending"
