"""Checks decided on the compiled runtime: C01, C07, C08, C09, the compiled halves of C06 and C13."""
import json
import os
import random
import re

from .. import common, gen, tlc
from . import engine
from .asyncchecks import _graphs, _hist_run, _hist_step

_QUICK = [False]


def _to(t):
    """per-job wall-clock budget: the external MCS search occasionally explodes on a recorded graph (one job at 100 % CPU for > 20 min was
    seen); in the quick tier such a job is given up after 10 minutes and reported as skipped"""
    return min(t, 600) if _QUICK[0] else t


ALL_MODES = [["mcs", True], ["mcs", False], ["gen", True], ["gen", False], ["topo", True], ["topo", False]]

RUN_CLAUSE_PROPS = {
    # a replayed step that executes with another sequence number / in another order than recorded does not "see the same sequence number" (C01)
    "ExactlyOnce_Seq": {"C06", "C07", "C01"}, "ExactlyOnce_MaskedSupervisorSlot": {"C06", "C07"}, "ExactlyOnce_MissingExecution": {"C06", "C01"},
    "ExactlyOnce_WrongStep": {"C06", "C07", "C01"},
    "ExactlyOnce_ExtraExecution": {"C06"},
    "StepEps": {"C09", "C01"}, "StepTs": {"C01", "C07", "C09"}, "StepParams": {"C09", "C01"}, "StepState": {"C01", "C09", "C13"},
    "StepRng": {"C01", "C09"}, "WindowAsScheduled": {"C01", "C08", "C07"}, "ReadsRing": {"C08", "C01"}, "ScheduledPayload": {"C08", "C01"},
    "StepOutput": {"C01", "C09"}, "SupervisorStepOfPartition": {"C09", "C07"},
    "MatchesAsync_Ts": {"C01"}, "MatchesAsync_State": {"C01"}, "MatchesAsync_Rng": {"C01"}, "MatchesAsync_Window": {"C01"},
    "MatchesAsync_Output": {"C01"},
    "FinalStepCounter": {"C09"}, "FinalNodeState": {"C09"}, "FinalSeq": {"C09"},
    "RecordRow": {"C13"}, "RecordNeverExecutedRow": {"C13"}, "RecordRowMissing": {"C13"}, "PayloadOfNamedSeq": {"C08", "C01"},
}
SCHED_CLAUSE_PROPS = {
    "VertexExists": {"C07"}, "EachVertexOnce": {"C07", "C06"}, "InSeqOrder": {"C07"}, "CarriesOwnTimes": {"C07"}, "CarriesOwnWindow": {"C07"},
    "ProducersFirst": {"C07"}, "SameKindTwiceInGeneration": {"C07"}, "SupClosesPartition": {"C07"}, "RequiredExecuted": {"C07"},
    "BufferHoldsScheduledMessage": {"C08"}, "BufferHoldsDefaultForNegative": {"C08"},
}


def _rec_cfgs(seed, n, fam=(), **kw):
    """n configurations: first one per requested hand-made family (harness/families.py), the rest from the seeded generator"""
    from .. import families

    out = []
    for k, f in enumerate(fam):
        if len(out) < n:
            out.append(families.FAMILIES[f](random.Random(seed * 31 + k)))
    return out + _graphs(seed, n - len(out), **kw)


def _gen_cfgs(seed, n):
    return _graphs(seed, n, allow_blocking=False, allow_buffer=False, allow_advance=False, allow_phase_sched=False)


_REPORTED = set()


def _rex_raised(err):
    """If the deepest frame of the traceback that belongs to rex or to the harness lies in rex: what was raised and where; else None."""
    repo = os.environ.get("REX_REPO", "/repo")
    roots = {repo.rstrip("/") + "/rex/", os.path.realpath(repo).rstrip("/") + "/rex/"}
    frames = re.findall(r'File "([^"]+)", line (\d+), in (\S+)', err)
    own = [f for f in frames if any(f[0].startswith(r) for r in roots) or "/harness/" in f[0]]
    if not own or "/harness/" in own[-1][0]:
        return None
    lines = [ln for ln in err.strip().splitlines() if ln and not ln.startswith(" ")]
    exc = next((ln.split(":")[0] for ln in reversed(lines) if re.match(r"^[A-Za-z_.]+(Error|Exception|Exit|Interrupt)\b", ln)), "Exception")
    return dict(file=own[-1][0], line=int(own[-1][1]), func=own[-1][2], exc=exc)


def _collect(rep, results, key):
    out = []
    for res in results:
        job = res["job"]
        if not res.get("ok"):
            if res.get("timeout"):
                rep.note(f"job {job.get('id')} exceeded its wall-clock budget (skipped)")
                continue
            rr = _rex_raised(res.get("error", ""))
            if rr is not None:
                # the exception comes out of rex itself (deepest own frame under <repo>/rex/) on a graph and call history of the supported class:
                # rex refused / crashed on a legal use - a violation of the property under check, not a failure of the machinery
                if (job.get("id"), "raised") not in _REPORTED:
                    _REPORTED.add((job.get("id"), "raised"))
                    rep.violation(dict(kind="rex_raised", exc=rr["exc"], where=rr["func"]),
                                  dict(kind="rex_raised", job={k: job[k] for k in job if k in ("id", "cfg", "seed", "mode", "prune", "modes", "source")}, error=res.get("error", "")[-3000:]),
                                  text=f"job {job.get('id')}: rex raised {rr['exc']} in {rr['func']} ({rr['file']}:{rr['line']}) on a supported graph and legal call history")
                continue
            raise common.MachineryError(f"job {job.get('id')} failed:\n{res.get('error', '')[-3000:]}")
        for t in res.get(key, []):
            out.append((job, res, t))
    return out


def _required_class(t, detail):
    """Why was a vertex that finished before an in-horizon supervisor step not executed (prune=False)?  From the raw graph of the trace:
    'needed_only_beyond_horizon' - it is an ancestor of supervisor steps, but only of ones beyond the compiled horizon (rex keeps such a vertex in the
    partition of the first supervisor step that depends on it, and the horizon - the shortest episode - cuts that partition off);
    'non_ancestor_not_attached' - it is no ancestor of any supervisor step (to_connected_graph should have attached it); 'other'."""
    m = re.search(r'got \|-> <<"(\w+)", (\d+)>>', detail)
    if not m:
        return "other"
    kind0, seq0 = m.group(1), int(m.group(2)) - 1
    succ = {}
    for k, rows in t["verts"].items():
        seqs = sorted(r["seq"] for r in rows)
        for a, b in zip(seqs, seqs[1:]):
            succ.setdefault((k, a), set()).add((k, b))
    for key, es in t["edges"].items():
        a, b = key.split(">")
        for e in es:
            if e["in"] >= 0:
                succ.setdefault((a, e["out"]), set()).add((b, e["in"]))
    seen, todo = {(kind0, seq0)}, [(kind0, seq0)]
    while todo:
        x = todo.pop()
        for y in succ.get(x, ()):
            if y not in seen:
                seen.add(y)
                todo.append(y)
    sups = sorted(q for (k, q) in seen if k == t["sup"] and (k, q) != (kind0, seq0))
    if not sups:
        return "non_ancestor_not_attached"
    return "other" if sups[0] < t["H"] else "needed_only_beyond_horizon"


def _judge(rep, items, module, table, mine, kind):
    traces = [t for _, _, t in items]
    vs, st = engine.validate_parallel(traces, module=module)
    rep.add_tlc(st)
    rep.cov["traces_validated_against_impl"] += len(traces)
    rep.cov["evaluations"] += len(traces)
    for (job, res, t), v in zip(items, vs):
        if v["verdict"] == "accept":
            continue
        props = table.get(v["clause"], set())
        also = None
        if " ALSO [clause |-> \"" in v["detail"]:   # a second, independently judged clause (RexRun: PayloadOfNamedSeq on the log alone)
            also = v["detail"].split(" ALSO [clause |-> \"", 1)[1].split("\"", 1)[0]
        if not (props & mine) and also and (table.get(also, set()) & mine):
            rep.violation(dict(clause=also, kind=kind),
                          dict(kind=kind, job={k: job[k] for k in job if k not in ("runs", "histories")}, trace_id=t["id"], verdict=v),
                          text=f"{kind} trace {t['id']} rejected by {module} clause {v['clause']} and, independently, by {also}: {v['detail'].split(' ALSO ', 1)[1][:600]}")
            continue
        if props & mine:
            sig = dict(clause=v["clause"], kind=kind)
            if v["clause"] == "RequiredExecuted" and "prune=False" in v["detail"]:
                sig["cls"] = _required_class(t, v["detail"])
            rep.violation(sig,
                          dict(kind=kind, job={k: job[k] for k in job if k not in ("runs", "histories")}, trace_id=t["id"], verdict=v),
                          text=f"{kind} trace {t['id']} rejected by {module} clause {v['clause']}" + (f" (class {sig['cls']})" if "cls" in sig else "") + f": {v['detail'][:700]}")
        else:
            rep.note(f"{kind} trace {t['id']} rejected by clause {v['clause']} which belongs to {sorted(props)}; not examined further here")
    return vs


# ------------------------------------------------------------------------------------------------
def _static_jobs(seed, n_rec, n_gen, modes_rec, modes_gen, tag):
    jobs = []
    for i, cfg in enumerate(_rec_cfgs(seed + 700, n_rec, fam=("long_sink", "slow_producer", "slow_side_node"))):
        rng = random.Random(seed + i)
        ms = modes_rec(i)
        if i == 0:
            ms = [["mcs", False, {}], ["gen", False, {}]] + ms[:1]  # long_sink: prune=False is what attaches the sink steps
        jobs.append(dict(kind="pyfunc", module="harness.compiled_jobs", func="static_job", id=f"{tag}rec{i}", cfg=cfg, seed=seed + i, source="record",
                         histories=[_hist_step(rng.randint(4, 8)), _hist_run(rng.randint(3, 8)), _hist_step(rng.randint(3, 5))][: rng.choice([2, 3])],
                         modes=ms, timeout=_to(1500)))
    for i, cfg in enumerate(_gen_cfgs(seed + 750, n_gen)):
        rng = random.Random(seed + 50 + i)
        jobs.append(dict(kind="pyfunc", module="harness.compiled_jobs", func="static_job", id=f"{tag}gen{i}", cfg=cfg, seed=seed + i, source="generate",
                         ts_max=rng.choice([32, 48, 64, 96]), num_episodes=rng.choice([1, 2, 3]), modes=modes_gen(i), timeout=_to(1500)))
    # generated graphs with one trainable (zero-order-hold) connection: the scheduled window is extended by ceil(rate_out * (max - min))
    from . import smallchecks
    for i in range(max(1, n_gen // 2)):
        cfg = smallchecks.c10_e2e_cfg(seed * 1000 + 7000 + i, jitter=(i % 2 == 1), skip=(i % 3 == 2))
        if cfg is None:
            continue
        rng = random.Random(seed + 90 + i)
        jobs.append(dict(kind="pyfunc", module="harness.compiled_jobs", func="static_job", id=f"{tag}trn{i}", cfg=cfg, seed=seed + i, source="generate",
                         ts_max=rng.choice([32, 48, 64]), num_episodes=rng.choice([1, 2]), modes=modes_gen(i), timeout=_to(1500)))
    return jobs


def c07(tier, seed):
    _QUICK[0] = tier == "quick"
    rep = common.Report("C07", tier, seed)
    quick = tier == "quick"

    def modes_rec(i):
        if quick:
            return [ALL_MODES[(2 * i) % 6] + [{}], ALL_MODES[(2 * i + 3) % 6] + [{}], ["mcs", bool(i % 2), {"s_init": True}]]
        return [m + [{}] for m in ALL_MODES] + [["mcs", True, {"s_init": True}], ["mcs", False, {"s_init": True}]]

    def modes_gen(i):
        if quick:
            return [ALL_MODES[(2 * i + 1) % 6] + [{}], ALL_MODES[(2 * i + 4) % 6] + [{}]]
        return [m + [{}] for m in ALL_MODES]

    jobs = _static_jobs(seed, 6 if quick else 24, 6 if quick else 24, modes_rec, modes_gen, "c07")
    results = common.run_jobs(jobs, timeout=1800)
    items = _collect(rep, results, "traces")
    vs = _judge(rep, items, "RexSchedule", SCHED_CLAUSE_PROPS, {"C07"}, "schedule")
    metas = [m for res in results if res.get("ok") for m in res.get("meta", [])]
    fc = {}
    for (job, res, t), v, m in zip(items, vs, metas):
        if v["verdict"] == "accept" and set(m["features"]) & {"multi_rate", "partially_filled_window", "multi_message_step", "prune_off"}:
            rep.nontrivial(t["id"])
        rep.sample(dict(trace=t["id"], mode=m["mode"], prune=m["prune"], partitions=m["H"], slots_run=m["slots"], vertices=m["nverts"], buffer=m["buf"],
                        features=m["features"], verdict=v["verdict"]))
        for f in m["features"]:
            fc[f] = fc.get(f, 0) + 1
    # the schedule as EXECUTED: jitted rollouts of two graphs (one with more than ten slots of a kind on the uniform lax.scan path) must run the slots
    # in the order and with the sequence numbers / times / windows the schedule carries (RexRun clauses that belong to C07)
    def runs_of(i, rng):
        return [dict(eps=0, history=["rollout:99"]), dict(eps=1, history=["rollout:99"])]

    def modes_run(i):
        return [ALL_MODES[2 + (i % 2) * 2] + [{}], ALL_MODES[5 - (i % 2) * 2] + [{}]] if quick else [m + [{}] for m in ALL_MODES]

    rjobs = _run_jobs_for(seed + 720, 2 if quick else 6, "c07run", runs_of, modes_run, fam=("fast_node", "slow_side_node"))
    rres = common.run_jobs(rjobs, timeout=2700)
    ritems = _collect(rep, rres, "runs")
    rvs = _judge(rep, ritems, "RexRun", RUN_CLAUSE_PROPS, {"C07"}, "run")
    for (job, res, t), v in zip(ritems, rvs):
        if v["verdict"] == "accept":
            rep.nontrivial(t["id"])
    rep.cov["rule"] = ("real rex.graph.Graph instances built from recorded (threaded runtime, ragged multi-episode) and generated computation graphs, "
                       "3 supergraph modes x prune on/off x user-supplied S_init; each episode's public Graph.timings is replayed by RexSchedule "
                       "against the raw graph: EachVertexOnce, InSeqOrder, ProducersFirst, SupClosesPartition, CarriesOwnTimes, CarriesOwnWindow "
                       "(WindowOf is defined in TLA+ from the raw edges), RequiredExecuted. non-trivial = multi-rate, partially filled windows, "
                       "multi-message steps or prune off")
    rep.assumptions += ["the external supergraph library is not trusted: its output is judged per instance",
                        "vertices scheduled beyond the required set are allowed; duplicates and order violations are not"]
    return rep.finish(dict(feature_counts=fc))


def _run_jobs_for(seed, n, tag, runs_of, modes_of, match_async=False, source="record", fam=()):
    jobs = []
    cfgs = _rec_cfgs(seed + 800, n, fam=fam) if source == "record" else _gen_cfgs(seed + 850, n)
    for i, cfg in enumerate(cfgs):
        rng = random.Random(seed + i)
        job = dict(kind="pyfunc", module="harness.compiled_jobs", func="run_job", id=f"{tag}{i}", cfg=cfg, seed=seed + i, source=source,
                   match_async=match_async, modes=modes_of(i), runs=runs_of(i, rng), timeout=_to(2400))
        if source == "record":
            job["histories"] = [_hist_step(rng.randint(5, 8)), _hist_run(rng.randint(5, 9)), _hist_step(rng.randint(4, 6))][: rng.choice([2, 3])]
        else:
            job.update(ts_max=rng.choice([48, 64]), num_episodes=2)
        jobs.append(job)
    return jobs


def _run_campaign(rep, jobs, mine):
    results = common.run_jobs(jobs, timeout=2700)
    st_items = _collect(rep, results, "static")
    run_items = _collect(rep, results, "runs")
    _judge(rep, st_items, "RexSchedule", SCHED_CLAUSE_PROPS, mine, "schedule")
    vs = _judge(rep, run_items, "RexRun", RUN_CLAUSE_PROPS, mine, "run")
    metas = [m for res in results if res.get("ok") for m in res.get("meta", [])]
    return results, run_items, vs, metas


def c01(tier, seed):
    _QUICK[0] = tier == "quick"
    rep = common.Report("C01", tier, seed, level="translation_validation")
    quick = tier == "quick"
    full = dict(params=True, rng=True, inputs=True, state=True, output=True)

    def runs_of(i, rng):
        # every recorded episode is re-executed by the compiled runtime (rollout over the whole horizon)
        return [dict(eps=e, history=["rollout:99"]) for e in range(3)]

    def modes_of(i):
        if quick:
            return [ALL_MODES[i % 6] + [{}], ALL_MODES[(i + 3) % 6] + [{}]]
        return [m + [{}] for m in ALL_MODES]

    jobs = _run_jobs_for(seed + 100, 11 if quick else 33, "c01g", runs_of, modes_of, match_async=True,
                         fam=("slow_side_node", "slow_producer", "same_generation_pair", "fast_node", "train_tie"))  # position 3 compiles GENERATIONAL in the quick tier
    # the async side of the pair: the same worker validates nothing about the threaded runtime; that is C02-C04's business. Here
    # the two probe logs are compared step by step (clauses MatchesAsync_*) and the compiled log must be a run of RexRun.
    results, run_items, vs, metas = _run_campaign(rep, jobs, {"C01"})
    nprog = 0
    ncmp = 0
    for (job, res, t), v, m in zip(run_items, vs, metas):
        nprog += 1
        steps = sum(1 for e in t["log"])
        ncmp += steps
        if v["verdict"] == "accept" and steps > 0 and "ref" in t:
            rep.nontrivial(t["id"])
        rep.sample(dict(trace=t["id"], mode=m["mode"], prune=m["prune"], episode=m["eps"], partitions=m["P"], compiled_steps_compared=steps,
                        verdict=v["verdict"]))
    rep.cov["programs"] = nprog
    rep.cov["disagreements_checked"] = rep.violations
    rep.cov["steps_compared"] = ncmp
    rep.cov["rule"] = ("program = (generated node graph, recorded multi-episode experiment, supergraph mode, prune, episode). The episode is recorded "
                       "on the threaded runtime, converted with ExperimentRecord.to_graph(), compiled, and re-executed (jitted rollout over the horizon) "
                       "from the same initial per-node rng, params and state; the compiled probe log must be a run of the abstract machine RexRun and "
                       "equal the threaded runtime's probe log step by step: eps/seq, start time, rng chain position, state hash, input windows (seq, "
                       "ts_sent, ts_recv, payload; negative sequence numbers identified), output hash")
    rep.assumptions += ["the threaded side of each pair is validated against RexLaw by C02-C04, not here", "grid time domain"]
    return rep.finish()


def c08(tier, seed):
    _QUICK[0] = tier == "quick"
    rep = common.Report("C08", tier, seed)
    quick = tier == "quick"

    def runs_of(i, rng):
        return [dict(eps=0, history=["rollout:99"]), dict(eps=1, history=["reset"] + ["step"] * 3), dict(eps=0, step0=2, history=["run", "run"]),
                dict(eps=1, history=["gymfull"]),
                # a stateless agent: every step() is overridden with the SAME step state and output, computed once from reset()'s step state
                dict(eps=0, history=["gymstale"])]

    def modes_of(i):
        pads = [0, 1, 3]
        ms = [ALL_MODES[(i * 2 + j) % 6] + [{"extra_padding": pads[(i + j) % 3]}] for j in range(2 if quick else 6)]
        return ms

    jobs = _run_jobs_for(seed + 200, 9 if quick else 21, "c08r", runs_of, modes_of, fam=("same_generation_pair", "slow_producer", "fast_node", "same_generation_pair", "slow_side_node", "shadow_clash"))  # positions 0 and 3 run with extra_padding 0; position 2 compiles TOPOLOGICAL (uniform scan path, > 10 slots of a kind)
    jobs += _run_jobs_for(seed + 250, 4 if quick else 12, "c08g", runs_of, modes_of, source="generate")
    results, run_items, vs, metas = _run_campaign(rep, jobs, {"C08"})
    # user-supplied buffer sizes: every admissible size must work, a size below the minimum must be refused by rex
    bjobs = []
    for i, cfg in enumerate(_rec_cfgs(seed + 900, 3 if quick else 11, fam=("fast_chain",))):   # fast_chain: one producer, two readers with different requirements
        bjobs.append(dict(kind="pyfunc", module="harness.compiled_jobs", func="buffer_job", id=f"c08b{i}", cfg=cfg, seed=seed + i, source="record",
                          histories=[_hist_step(6), _hist_run(6)], timeout=_to(2400)))
    bres = common.run_jobs(bjobs, timeout=2700)
    st_items = _collect(rep, bres, "static")
    run_items2 = _collect(rep, bres, "runs")
    _judge(rep, st_items, "RexSchedule", SCHED_CLAUSE_PROPS, {"C08"}, "schedule")
    vs2 = _judge(rep, run_items2, "RexRun", RUN_CLAUSE_PROPS, {"C08"}, "run")
    for res in bres:
        for c in res.get("checks", []) if res.get("ok") else []:
            rep.cov["evaluations"] += 1
            if not c["ok"]:
                rep.violation(dict(kind=c["kind"]), dict(kind="buffer_sizes", job={k: res["job"][k] for k in ("id", "cfg", "seed")}, check=c),
                              text=f"{res['job']['id']}: {c}")
    for (job, res, t), v in list(zip(run_items, vs)) + list(zip(run_items2, vs2)):
        if v["verdict"] == "accept" and any(b > 1 for b in t["buf"].values()) and len(t["log"]) > 0:
            rep.nontrivial(t["id"])
        rep.sample(dict(trace=t["id"], buffer=t["buf"], ops=t["ops"][:8], steps=len(t["log"]), verdict=v["verdict"]))
    rep.cov["rule"] = ("real compiled executions (rollout / reset+step / run from a later starting step, episodes 0 and 1) with the automatically sized "
                       "buffers, extra_padding 0/1/3 and user-supplied buffer_sizes (minimum .. minimum+2); every window entry seen by a probe must "
                       "be what RexRun's ring-buffer machine reads (ReadsRing) and that must be the producer's emission at the scheduled sequence number "
                       "or the default output for negative entries (ScheduledPayload); statically, RexSchedule replays Graph.timings against the ring "
                       "sizes (BufferHoldsScheduledMessage). non-trivial = accepted run with some ring size > 1")
    rep.assumptions += ["window entries whose producer step lies before the starting step of the run are not judged (their ring slot holds the default output)"]
    # the sizing rule itself: BufferSize.tla (TLC: the rule is safe on every schedule of the bounded instance) replayed on the real get_buffer_sizes()
    from . import smallchecks
    smallchecks.c08_buffer_rule(rep, quick)
    return rep.finish()


def _api_histories(max_calls, max_ru, step0=0):
    cfgp = os.path.join(tlc.SPECS, f"RexApi_{max_calls}_{max_ru}_{step0}.cfg")
    with open(cfgp, "w") as f:
        f.write(f"SPECIFICATION Spec\nCONSTANTS\n  MaxCalls = {max_calls}\n  MaxRU = {max_ru}\n  Step0 = {step0}\nINVARIANT StepIsPartitionCount\nINVARIANT Emit\nCHECK_DEADLOCK FALSE\n")
    try:
        r = tlc.run_tlc("RexApi", cfg=os.path.basename(cfgp), workers=1, timeout=600)
    finally:
        os.remove(cfgp)
    if r["stats"]["invariant_violated"] or r["stats"]["error"]:
        raise common.MachineryError("RexApi: " + r["out"][-2000:])
    hs = []
    for line in r["out"].splitlines():
        if line.startswith('<<"HIST"'):
            m = re.match(r'<<"HIST", (<<.*?>>), (<<.*?>>), (\d+)>>$', line.strip())
            if not m:
                continue
            hist = re.findall(r'"([^"]+)"', m.group(1))
            nf = re.findall(r'"([^"]+)"', m.group(2))
            if hist:
                hs.append((hist, nf, step0))
    return hs, r["stats"]


def c09(tier, seed):
    _QUICK[0] = tier == "quick"
    rep = common.Report("C09", tier, seed)
    quick = tier == "quick"
    hs, st = _api_histories(3 if quick else 4, 4, 0)
    rep.add_tlc(st)
    hs2, st2 = _api_histories(2, 3, 1)
    rep.add_tlc(st2)
    rep.cov["model_runs"] = [dict(module="RexApi", histories=len(hs) + len(hs2), states=st["distinct"] + st2["distinct"])]
    rng = random.Random(seed)
    jobs = []
    ng = 2 if quick else 8
    for i, cfg in enumerate(_rec_cfgs(seed + 1000, ng)):
        pick = hs if not quick else rng.sample(hs, min(len(hs), 70))
        pick2 = hs2 if not quick else rng.sample(hs2, min(len(hs2), 10))
        m = ALL_MODES[i % 6]
        jobs.append(dict(kind="pyfunc", module="harness.compiled_jobs", func="api_job", id=f"c09g{i}", cfg=cfg, seed=seed + i, source="record",
                         histories_async=None, mode=m[0], prune=m[1], eps=i % 2,
                         histories=[list(h) for h in (pick + pick2)], inits=[[-1, -1], [0, 2], [1, 0], [5, 50], [2, 4]], eager_every=10 if quick else 5,
                         timeout=3000))
        jobs[-1]["hist_src"] = [_hist_step(8), _hist_run(9)]
    # the record source needs 'histories' for the async recording; keep API histories under another key
    for j in jobs:
        j["api_histories"] = j.pop("histories")
        j["histories"] = j.pop("hist_src")
    results = common.run_jobs(jobs, timeout=3300)
    st_items = _collect(rep, results, "static")
    run_items = _collect(rep, results, "runs")
    _judge(rep, st_items, "RexSchedule", SCHED_CLAUSE_PROPS, {"C09"}, "schedule")
    vs = _judge(rep, run_items, "RexRun", RUN_CLAUSE_PROPS, {"C09"}, "run")
    # runs made right after init(starting_eps, starting_step): WHICH steps execute is the starting index itself ("the starting step given to init()
    # is exactly what the steps see"), so for these traces the ExactlyOnce clauses are C09's as well
    for (job, res, t), v in zip(run_items, vs):
        if v["verdict"] != "accept" and "/init" in t["id"] and v["clause"].startswith("ExactlyOnce") and not (RUN_CLAUSE_PROPS.get(v["clause"], set()) & {"C09"}):
            rep.violation(dict(clause=v["clause"], kind="init_run"),
                          dict(kind="run", job={k: job[k] for k in job if k not in ("runs", "histories", "api_histories")}, trace_id=t["id"], verdict=v),
                          text=f"run trace {t['id']} (first call after init at partition {t['step0']}) rejected by RexRun clause {v['clause']}: {v['detail'][:600]}")
    npairs = 0
    for res in results:
        if not res.get("ok"):
            continue
        job = res["job"]
        for c in res["checks"]:
            rep.cov["evaluations"] += 1
            if not c["ok"]:
                rep.violation(dict(kind=c["kind"]), dict(kind="api_check", job={k: job[k] for k in ("id", "cfg", "seed", "mode", "prune")}, check=c),
                              text=f"{job['id']}: {c}")
        groups = {}
        for d in res["digests"]:
            groups.setdefault((tuple(d["nf"]), d["s0"]), []).append(d)
        for key, ds in groups.items():
            base = ds[0]
            for d in ds[1:]:
                npairs += 1
                if d["digest"] != base["digest"]:
                    rep.violation(dict(kind="api_purity"),
                                  dict(kind="api_pair", job={k: job[k] for k in ("id", "cfg", "seed", "mode", "prune")}, a=base, b=d),
                                  text=f"{job['id']}: histories {base['hist']} (jit={base['jit']}) and {d['hist']} (jit={d['jit']}) have the same normal form "
                                       f"{list(key[0])} but leave different GraphStates")
                else:
                    rep.nontrivial((job["id"], tuple(base["hist"]), tuple(d["hist"]), d["jit"]))
    for (job, res, t), v in zip(run_items, vs):
        rep.sample(dict(trace=t["id"], ops=t["ops"], step0=t["step0"], eps=t["eps"], steps=len(t["log"]), verdict=v["verdict"]), limit=5)
    rep.cov["pairs_compared_bitwise"] = npairs
    rep.cov["rule"] = ("RexApi (TLC) enumerates every call history over {run, reset, step, step-with-override, rollout(1), rollout(2)} up to the bound with its "
                       "normal form; each history is replayed on a real Graph (jitted; every k-th also eagerly): its probe log and final step/seq/state must be "
                       "a run of RexRun's API layer, and all histories with the same normal form must leave bitwise identical GraphState pytrees; plus "
                       "init() clipping / params override, vmapped batch = un-batched, full-trajectory rollout = carry-only. distinct = bitwise-compared pairs")
    rep.assumptions += ["histories stay inside the horizon (at most max_steps partitions); behaviour beyond the horizon is not claimed"]
    return rep.finish()


def c06_compiled(rep, tier, seed):
    _QUICK[0] = tier == "quick"
    """Compiled half of C06: every run=True slot executes exactly once with its sequence number, masked slots and overridden supervisor steps never."""
    quick = tier == "quick"

    def runs_of(i, rng):
        # every stacked episode is rolled out over the whole compiled horizon (episodes have unequal lengths: the shorter ones must stay masked)
        return [dict(eps=0, history=["rollout:99"], jit=True), dict(eps=1, history=["rollout:99"], jit=True), dict(eps=2, history=["rollout:99"], jit=True),
                dict(eps=1, history=["reset", "step", "stepo", "step", "stepo"], jit=True), dict(eps=2, history=["gymfull"], jit=True),
                dict(eps=0, history=["run", "run"], jit=False),
                # out-of-range episode indices are clipped by init(): the LAST (first) episode's schedule is what executes, mask and all
                # (seeded change C06-g gathered the schedule before clipping: fill values, every slot runs)
                dict(eps=-1, eps_arg=99, history=["run", "run", "run"], jit=True), dict(eps=0, eps_arg=-3, history=["reset", "step"], jit=True)]

    def modes_of(i):
        # the last mode of every job compiles with Graph(skip=[one non-supervisor node]): that node's step must never execute
        return ([ALL_MODES[(i * 2) % 6] + [{}], ALL_MODES[(i * 2 + 3) % 6] + [{"skip_nonsup": i}]] if quick
                else [m + [{}] for m in ALL_MODES] + [ALL_MODES[i % 6] + [{"skip_nonsup": i}], ALL_MODES[(i + 3) % 6] + [{"skip_nonsup": i + 1}]])

    jobs = _run_jobs_for(seed + 300, 7 if quick else 12, "c06c", runs_of, modes_of, fam=("rare_overrun", "fast_node", "slow_side_node"))  # position 0: MCS; position 1: GENERATIONAL + TOPOLOGICAL
    results, run_items, vs, metas = _run_campaign(rep, jobs, {"C06"})
    n = 0
    for (job, res, t), v in zip(run_items, vs):
        if v["verdict"] == "accept":
            rep.nontrivial(t["id"])
            n += len(t["log"])
    rep.cov["compiled_part"] = dict(runs=len(run_items), step_executions_checked=n,
                                    rule="jitted rollout, jitted reset/step with overrides, un-jitted run under every supergraph mode: the probe log must "
                                         "contain exactly the run=True slots of the executed partitions, each once, with the slot's sequence number")


def c13(tier, seed):
    _QUICK[0] = tier == "quick"
    from . import asyncchecks

    rep = common.Report("C13", tier, seed)
    quick = tier == "quick"
    # threaded runtime: all flag combinations, truncation; every run must be a behaviour of the law and agree with the fully recorded run
    jobs = asyncchecks.c13_async_jobs(tier, seed)
    for j in jobs:
        j["ref"] = False
        j["fixed_gs_eps"] = 0
    # truncated records cannot be timed by the law beyond the cut: they only take part in the cross comparison below
    full_jobs = [j for j in jobs if not j.get("truncated")]
    trunc_jobs = [j for j in jobs if j.get("truncated")]
    res = engine.run_campaign(rep, full_jobs, {"C13"})
    tres = common.run_jobs(trunc_jobs, timeout=900)
    for r in tres:
        if not r.get("ok"):
            if r.get("timeout"):
                rep.note(f"job {r['job'].get('id')} exceeded its budget")
                continue
            raise common.MachineryError(r.get("error", "")[-2000:])
        for run in r["runs"]:
            for t, m in zip(run["traces"], run["meta"]):
                res.append((r["job"], run, t, m, dict(verdict="n/a", clause="-")))
    # inertness: compare every run of a group with the group's first (fully recorded) run of the same episode:
    # records on the common prefix, probe logs entirely
    groups = {}
    for job, run, t, m, v in res:
        groups.setdefault((job["group"], m["eps"]), []).append((job, t, v))
    cross = []
    from .. import trace as tr

    for gname, lst in groups.items():
        base = lst[0][1]
        for job, t, v in lst[1:]:
            t2 = dict(t)
            t2["id"] = t["id"] + "~vs~" + base["id"]
            t2["ref"] = tr.as_ref(base)
            t2["reflog"] = base["log"]
            t2["flags"] = dict(t["flags"], truncated=bool(job.get("truncated")), tableonly=bool(job.get("truncated")))
            cross.append((job, t2))
    if cross:
        vs, st = engine.validate_parallel([t for _, t in cross])
        rep.add_tlc(st)
        rep.cov["traces_validated_against_impl"] += len(cross)
        for (job, t), v in zip(cross, vs):
            if v["verdict"] != "accept":
                props = engine.CLAUSE_PROPS.get(v["clause"], set()) | ({"C13"} if v["clause"].startswith(("Deterministic", "Inert")) else set())
                if "C13" in props:
                    rep.violation(dict(clause=v["clause"], kind="inert"), dict(kind="async_cross", job={k: job[k] for k in job if k != "runs"}, verdict=v),
                                  text=f"{t['id']}: recording settings {job.get('record')} max_records={job.get('max_records')} changed the execution: {v['detail'][:600]}")
                else:
                    rep.note(f"{t['id']} rejected by {v['clause']} ({sorted(props)})")
            else:
                rep.nontrivial(t["id"])
    # compiled runtime: record rows = what the probes saw; never-executed rows stay -1; with/without record same final state
    full = dict(params=True, rng=True, inputs=True, state=True, output=True)

    def runs_of(i, rng):
        combos = [full, dict(state=True, output=True), dict(rng=True), dict(inputs=True, params=True), None]
        rs = [dict(eps=e, history=["rollout:99"], record=c) for e in (0, 1) for c in (combos if not quick else combos[:3] + [None])]
        # gym-style driving with overridden supervisor steps: an overridden step is an executed step of the record (its output is what the caller
        # handed over), only its step function did not run
        rs += [dict(eps=e, history=["reset", "step", "stepo", "stepo", "step", "stepo"], record=c) for e in ((0,) if quick else (0, 1)) for c in (full, dict(output=True), None)]
        # a full-length gym episode reaches the last partition: its steps must have rows too
        rs += [dict(eps=1, history=["gymfull"], record=c) for c in (full, None)]
        return rs

    def modes_of(i):
        o = {"consume_nonsup": i} if i % 2 == 1 else {}   # odd graphs: one node hands back consumed inputs (record = inputs the step was called with)
        return [ALL_MODES[(i * 2) % 6] + [o]] if quick else [ALL_MODES[(i + j) % 6] + [o if j != 1 else {}] for j in range(3)]

    cjobs = _run_jobs_for(seed + 400, 4 if quick else 8, "c13c", runs_of, modes_of)
    for j in cjobs:
        j["digest_no_aux"] = True
    results, run_items, vs, metas = _run_campaign(rep, cjobs, {"C13"})
    for res in results:
        if not res.get("ok"):
            continue
        by = {}
        for t, d in zip(res["runs"], res.get("digests", [])):
            by.setdefault((t["id"].rsplit("/r", 1)[0], t["eps"], json.dumps(t["ops"])), []).append((t["id"], d))   # same graph, episode and call history
        for key, lst in by.items():
            for tid_, d in lst[1:]:
                if d != lst[0][1]:
                    rep.violation(dict(kind="inert_compiled"), dict(kind="compiled_pair", job={k: res["job"][k] for k in ("id", "cfg", "seed")}, a=lst[0][0], b=tid_),
                                  text=f"{tid_} and {lst[0][0]}: final GraphState (without aux['record']) differs with the record settings")
                else:
                    rep.nontrivial((tid_, "digest"))
    for (job, res, t), v in zip(run_items, vs):
        rep.sample(dict(trace=t["id"], has_record="rec" in t, steps=len(t["log"]), verdict=v["verdict"]), limit=5)
    rep.cov["rule"] = ("threaded runtime: the same graph, seed and call history under all 32 combinations of the five record flags (quick: 6) and "
                       "max_records in {1, 3}: each record must be a behaviour of RexLaw (Record* clauses: state recorded before step k+1 = state "
                       "returned by step k, recorded windows / outputs / rng = what the probe saw) and must agree with the fully recorded run on the common "
                       "prefix, the probe logs entirely (Inert*). compiled runtime: aux['record'] rows = the probe log for executed steps, -1 for never "
                       "executed rows (RexRun RecordRow / RecordNeverExecutedRow); final GraphState minus aux['record'] identical with and without recording")
    rep.assumptions += ["compiled records are only taken on graphs whose node kinds all occur in the supergraph (Graph.init_record raises KeyError otherwise; outside the properties)"]
    return rep.finish()
