"""Binding of RexAsync to the code: schedules of real coarse-gate executions validated by RexAsyncTrace, and exhaustive exploration
of RexAsync (MC_RexAsync).  A rejected internal trace is MODEL-DRIFT (the code stopped following the implementation-shaped model), never
a violation by itself (DESIGN 3.4); verdicts stay with the observable traces."""
import json
import os
import shutil
from concurrent.futures import ThreadPoolExecutor

from .. import common, internal, tlc


def _validate(it):
    if "deadlock" in it:
        return dict(id=it["id"], status="deadlock", detail=it["deadlock"], sched=it.get("sched"), history=it.get("history"))
    d = tlc.scratch("itr_")
    try:
        p = os.path.join(d, "t.json")
        with open(p, "w") as f:
            json.dump(it["trace"], f)
        r = tlc.run_tlc("RexAsyncTrace", workers=1, env={"TRACE_FILE": p}, timeout=1200)
    finally:
        shutil.rmtree(d, ignore_errors=True)
    lines = r["out"].splitlines()
    acc = [l for l in lines if l.strip().startswith('"ACCEPTED|')]
    n = len(it["trace"]["events"])
    if not acc:
        m = [l for l in lines if "MATCHED" in l]
        return dict(id=it["id"], status="rejected", events=n, matched=(m[0] if m else ""), states=r["stats"]["distinct"],
                    error=[l for l in lines if l.startswith("Error")][:2])
    model = json.loads(acc[0].strip()[10:-1].replace('\\"', '"'))
    diffs = internal.compare_records(model, it["record"]) if it.get("record") else []
    return dict(id=it["id"], status="accepted", events=n, states=r["stats"]["distinct"], record_diffs=diffs[:3], has_record=bool(it.get("record")))


def internal_campaign(rep, prop, cfgs, histories, nsched, seed, policies):
    jobs = []
    for i, cfg in enumerate(cfgs):
        for j in range(nsched):
            hist = histories[(i + j) % len(histories)]
            jobs.append(dict(kind="pyfunc", module="harness.internal", func="internal_job", id=f"{prop.lower()}it{i}_{j}", cfg=cfg, seed=seed + i,
                             runs=[dict(history=hist, sched=dict(seed=seed * 100 + 10 * i + j, policy=policies[(i + j) % len(policies)]))], timeout=900))
    res = common.run_jobs(jobs)
    items = []
    for r in res:
        if not r.get("ok"):
            if r.get("timeout"):
                continue
            raise common.MachineryError(r.get("error", "")[-2500:])
        items += r["runs"]
    with ThreadPoolExecutor(8) as ex:
        out = list(ex.map(_validate, items))
    acc = [o for o in out if o["status"] == "accepted"]
    rej = [o for o in out if o["status"] == "rejected"]
    dl = [o for o in out if o["status"] == "deadlock"]
    for o in acc:
        rep.cov["states"] += o["states"]
        rep.cov["transitions"] += o["states"]
    for o in rej:
        rep.note(f"MODEL-DRIFT property={prop}: schedule of a real coarse-gate execution {o['id']} is not a behaviour of RexAsync ({o['matched']}, {o['error']})")
    for o in acc:
        if o["record_diffs"]:
            rep.note(f"MODEL-DRIFT property={prop}: records reconstructed by RexAsync differ from the real record of {o['id']}: {o['record_diffs']}")
    summary = dict(internal_traces=len(out), accepted=len(acc), rejected=len(rej), deadlocks=len(dl), events=sum(o.get("events", 0) for o in acc),
                   records_equal=sum(1 for o in acc if o["has_record"] and not o["record_diffs"]), model_bound=(len(rej) == 0 and not any(o["record_diffs"] for o in acc)))
    rep.cov["internal_trace_binding"] = summary
    rep.cov["traces_validated_against_impl"] += len(acc)
    return out, dl


def mc_rexasync(rep, cfgname, workers, timeout=3000):
    r = tlc.run_tlc("MC_RexAsync", cfg=cfgname, workers=workers, deadlock=True, timeout=timeout, heap="16g")
    st = r["stats"]
    ok = st["finished"] and not st["error"] and not st["invariant_violated"]
    rep.add_tlc(st)
    rep.cov.setdefault("model_runs", []).append(dict(module="MC_RexAsync", config=cfgname, workers=workers, states=st["distinct"], transitions=st["generated"],
                                                     wall_s=round(r["wall"], 1), result="no stall, invariants hold" if ok else "FAILED"))
    if not ok:
        rep.note(f"MC_RexAsync {cfgname}: " + (r["out"][-1500:] if st["error"] or st["invariant_violated"] else "did not finish within the budget"))
    return ok
