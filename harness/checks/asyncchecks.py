"""Checks decided on executions of the threaded runtime: C02, C03, C04, C05, C06 (async half), C13 (async half)."""
import itertools
import json
import os
import random

from .. import common, gen, mccfg, tlc
from . import engine

POLICIES = ["random", "burst", "pct", "user_first", "user_last"]


def _sample_of(job, run, t, m, v):
    return dict(trace=t["id"], config=dict(nodes=len(t["cfg"]["nodes"]), conns={k: {a: c[a] for a in ("blocking", "skip", "buffer", "window")}
                                                                              for k, c in t["cfg"]["conns"].items()}),
                history=run["history"], sched=run.get("sched"), rows=m["nrows"], features=m["features"], verdict=v["verdict"])


def _mc_law(rep, seed, n_random, K, invariants, tag):
    """Model-check the law on hand-made + random small configurations."""
    cfgs = mccfg.mc_configs(seed, n_random=n_random, K=K)
    d = tlc.scratch("mclaw_")
    path = os.path.join(d, "cfgs.json")
    cfgfile = os.path.join(tlc.SPECS, f"MC_RexLaw_{tag}.cfg")
    try:
        with open(path, "w") as f:
            json.dump(cfgs, f)
        with open(cfgfile, "w") as f:
            f.write("SPECIFICATION MCSpec\nCHECK_DEADLOCK FALSE\n" + "".join(f"INVARIANT {i}\n" for i in invariants))
        r = tlc.run_tlc("MC_RexLaw", cfg=os.path.basename(cfgfile), workers=common.NPROC, env={"MC_CFG_FILE": path}, timeout=5400, heap="16g")
    finally:
        import shutil

        shutil.rmtree(d, ignore_errors=True)
        if os.path.exists(cfgfile):
            os.remove(cfgfile)
    st = r["stats"]
    if not st["finished"] or st["error"] and not st["invariant_violated"]:
        raise common.MachineryError("MC_RexLaw did not finish:\n" + r["out"][-3000:])
    rep.add_tlc(st)
    rep.cov.setdefault("model_runs", []).append(dict(module="MC_RexLaw", configs=len(cfgs), K=K, invariants=invariants,
                                                     states=st["distinct"], transitions=st["generated"], wall_s=round(r["wall"], 1)))
    if st["invariant_violated"]:
        # a counterexample on the specification alone is never reported as a violation of the code (DESIGN 3.4):
        # the law is validated against the code by the traces below; this means the law and the property statement disagree
        raise common.MachineryError(f"MC_RexLaw: invariant {st['invariant_violated']} violated on the specification itself:\n" + r["out"][-4000:])
    return st


def _graphs(seed, n, tie_every=0, handmade=0, **kw):
    out = [double_tie_config(v + seed) for v in range(handmade)]
    for i in range(n - handmade):
        rng = random.Random(seed * 7919 + i)
        out.append(gen.gen_config(rng, tie_rich=bool(tie_every and i % tie_every == tie_every - 1), **kw))
    return out


def double_tie_config(variant=0):
    """Hand-made: producer twice as fast as the consumer, communication delay one or two producer periods: consecutive messages
    regularly arrive together, exactly at a consumer step's start (double tie, FIFO-equal receive times)."""
    skip = variant % 2 == 1
    return dict(nodes=[dict(name="s", nid=0, period=2, delay=0, cdist=[0], advance=False, sched="F", p=3),
                       dict(name="a", nid=1, period=4, delay=0, cdist=[0, 1], advance=False, sched="F" if variant < 2 else "P", p=5)],
                conns=[{"out": "s", "in": "a", "name": "s", "blocking": False, "skip": skip, "jitter": "L" if variant % 4 < 2 else "B", "window": 3,
                        "delay": 2, "cdist": [2, 4]},
                       {"out": "a", "in": "s", "name": "in_a", "blocking": False, "skip": True, "jitter": "L", "window": 1, "delay": 0, "cdist": [0, 2]}],
                sup="a")


def _force_advance(cfg, mixed):
    """Make one node advance=True: with blocking and non-blocking inputs (mixed) or with blocking inputs only."""
    by_in = {}
    for c in cfg["conns"]:
        by_in.setdefault(c["in"], []).append(c)
    cands = [n for n in cfg["nodes"] if len(by_in.get(n["name"], [])) >= (2 if mixed else 1)]
    if not cands:
        return
    n = cands[0]
    ins = by_in[n["name"]]
    for k, c in enumerate(ins):
        blocking = True if not mixed else (k == 0)
        if blocking and not c["blocking"]:
            c["blocking"] = True
            c["jitter"] = "L"
        if not blocking:
            c["blocking"] = False
    n["advance"] = True
    if not gen.is_supported(cfg):
        n["advance"] = False


def _hist_step(n, override_every=0):
    h = ["reset"]
    for i in range(n):
        h.append("step!" if override_every and (i % override_every == override_every - 1) else "step")
    return h + ["stop"]


def _hist_run(n):
    return ["run"] * n + ["stop"]


# ------------------------------------------------------------------------------------------------
def c03(tier, seed):
    rep = common.Report("C03", tier, seed)
    quick = tier == "quick"
    inv3 = ["StepsGapFreeNonOverlap", "MessagesCausalFifo", "ConsumerIsFirstEligible", "WindowIsMostRecent"]
    if quick:
        _mc_law(rep, seed, n_random=0, K=3, invariants=inv3, tag="c03")
    else:
        _mc_law(rep, seed, n_random=16, K=3, invariants=inv3, tag="c03")      # more topologies
        _mc_law(rep, seed, n_random=0, K=4, invariants=inv3, tag="c03k4")    # deeper on the hand-made ones
    jobs = []
    ng = 14 if quick else 64
    from .. import families
    fam = [families.blocking_tie(random.Random(seed * 17 + k)) for k in range(2 if quick else 8)]
    for i, cfg in enumerate(_graphs(seed + 300, ng - len(fam), tie_every=2, handmade=2, max_window=4) + fam):
        rng = random.Random(seed + i)
        gated = (i % 3 == 0)
        runs = []
        if gated:
            for s in range(3 if quick else 10):
                hist = _hist_step(rng.randint(3, 7)) if s % 2 == 0 else _hist_run(rng.randint(3, 6))
                runs.append(dict(history=hist, sched=dict(seed=seed * 100 + s, policy=POLICIES[s % 5])))
        else:
            runs.append(dict(history=_hist_step(rng.randint(3, 8)) + _hist_run(rng.randint(3, 6))))
        jobs.append(dict(kind="async", id=f"c03g{i}", cfg=cfg, seed=seed + i, gate=gated, runs=runs, jit_step=(i % 4 != 1), timeout=600))
    res = engine.run_campaign(rep, jobs, {"C03"})
    for job, run, t, m, v in res:
        if v["verdict"] == "accept" and set(m["features"]) & {"tie_consumed_nonskip", "tie_deferred_skip", "tie_deferred_skip_buffer", "fifo_clamp",
                                                             "multi_message_group", "group_exceeds_window", "buffer_held_back"}:
            rep.nontrivial(t["id"])
        rep.sample(_sample_of(job, run, t, m, v))
    fc = {}
    for _, _, _, m, _ in res:
        for f in m["features"]:
            fc[f] = fc.get(f, 0) + 1
    rep.cov["rule"] = ("graphs from the seeded generator (2-4 probe nodes, every blocking x skip x jitter x window combination, grid delays with "
                       "overruns and heavy communication jitter); each episode (free-running threads or a seeded gate schedule) gives one trace = "
                       "episode record + probe log, validated by RexTrace against RexLaw. non-trivial = accepted trace containing a tie at a step "
                       "start, a FIFO clamp, a multi-message group, a group larger than the window or a BUFFER hold-back")
    # order-only tier: continuous distributions (simulated clock) and wall-clock episodes under the gate's virtual time
    ojobs = []
    for i, cfg in enumerate(_graphs(seed + 350, 6 if quick else 48, tie_every=0, handmade=0, max_window=4)):
        for mode in ("continuous", "wall"):
            # thorough: every third graph runs on free threads (wall clock: the real clock, real sleeps); the rest under the gate
            ojobs.append(dict(kind="pyfunc", module="harness.order", func="order_job", id=f"c03o{i}{mode[0]}", cfg=cfg, seed=seed + i, mode=mode,
                              nsteps=6 if quick else 10, episodes=2 if quick else 4, policy=POLICIES[i % 5], gated=(quick or i % 3 != 2), timeout=600))
    ostats = engine.run_order_campaign(rep, ojobs)
    rep.assumptions += ["exact tier: times on the 1/64 s grid (DESIGN 3.1); continuous distributions (Normal, mixtures) and wall-clock episodes (gate, virtual "
                        "time) are covered by the order-only tier RexOrder: order relations between recorded values, not the values themselves",
                        "tail of an episode: messages not consumed by a recorded step are not in the record and are not judged (the property speaks of messages up to the last consumed one)"]
    return rep.finish(dict(feature_counts=fc, order_tier=ostats))


def c04(tier, seed):
    rep = common.Report("C04", tier, seed)
    quick = tier == "quick"
    inv4 = ["StartLaw", "PhaseReturnsToGrid", "FrequencySpacing", "StepsGapFreeNonOverlap", "MessagesCausalFifo"]
    if quick:
        _mc_law(rep, seed + 1, n_random=1, K=3, invariants=inv4, tag="c04")
    else:
        _mc_law(rep, seed + 1, n_random=16, K=3, invariants=inv4, tag="c04")
        _mc_law(rep, seed + 1, n_random=0, K=4, invariants=inv4, tag="c04k4")
    jobs = []
    ng = 14 if quick else 64
    from .. import families
    fam = [families.advance_mixed(random.Random(seed * 13 + k)) for k in range(2 if quick else 6)]
    for i, cfg in enumerate(fam + _graphs(seed + 400, ng - len(fam), heavy=True)):
        rng = random.Random(seed + i)
        if i >= len(fam):
            # force overruns on one node and both scheduling modes across the population
            n = cfg["nodes"][i % len(cfg["nodes"])]
            n["cdist"] = sorted(set(n["cdist"] + [n["period"] + 1, 2 * n["period"] + 1]))
            n["sched"] = "P" if i % 2 else "F"
            _force_advance(cfg, mixed=(i % 2 == 0))
        runs = [dict(history=_hist_step(rng.randint(4, 9)) + _hist_run(rng.randint(3, 7)))]
        jobs.append(dict(kind="async", id=f"c04g{i}", cfg=cfg, seed=seed + i, gate=False, runs=runs, timeout=600))
    res = engine.run_campaign(rep, jobs, {"C04"})
    fc = {}
    for job, run, t, m, v in res:
        if v["verdict"] == "accept" and set(m["features"]) & {"overrun", "freq_drift", "advance_before_schedule", "waited_for_blocking_input", "phase_on_grid"}:
            rep.nontrivial(t["id"])
        rep.sample(_sample_of(job, run, t, m, v))
        for f in m["features"]:
            fc[f] = fc.get(f, 0) + 1
    rep.cov["rule"] = ("as C03, generator biased to computation delays longer than the period, both scheduling modes, advance=True with blocking "
                       "inputs; every recorded ts_scheduled/ts_max/ts_end_prev/phase_scheduled/ts_start/ts_end/delay and every message's "
                       "ts_sent/ts_recv/delay must equal the law. non-trivial = accepted trace with an overrun, accumulated FREQUENCY drift, a start "
                       "before schedule (advance), a start held back by a blocking input, or a PHASE node back on its grid")
    rep.assumptions += ["times on the 1/64 s grid; dyadic rates (period 2,4,8 ticks)",
                        "the sampled communication delay before FIFO clamping is not logged by rex; it is constrained to the support of the configured distribution"]
    return rep.finish(dict(feature_counts=fc))


def c02(tier, seed):
    rep = common.Report("C02", tier, seed)
    quick = tier == "quick"
    # design level: order independence of the law, all interleavings, fixed delay streams
    cfgs = mccfg.mc_configs(seed, n_random=4 if quick else 16, K=3 if quick else 4, streams=True)
    d = tlc.scratch("mcconf_")
    try:
        path = os.path.join(d, "cfgs.json")
        with open(path, "w") as f:
            json.dump(cfgs, f)
        r = tlc.run_tlc("MC_RexLawConfluence", workers=1, env={"MC_CFG_FILE": path}, timeout=3000, heap="8g")
    finally:
        import shutil

        shutil.rmtree(d, ignore_errors=True)
    st = r["stats"]
    if not st["finished"] or st["invariant_violated"] or st["error"]:
        raise common.MachineryError("MC_RexLawConfluence failed:\n" + r["out"][-3000:])
    rep.add_tlc(st)
    rep.cov["model_runs"] = [dict(module="MC_RexLawConfluence", configs=len(cfgs), states=st["distinct"], transitions=st["generated"], wall_s=round(r["wall"], 1))]
    # implementation: many schedules x driving styles x real-time factors of the same configuration and initial state,
    # every record must agree with the first one on the common prefix (clauses Deterministic*, Observed*)
    jobs = []
    ng = 7 if quick else 16
    nsch = 12 if quick else 60
    from .. import families
    fam2 = [families.early_arrival(random.Random(seed * 19 + k)) for k in range(1 if quick else 3)]
    fam2 += [families.jitter_chain(random.Random(seed * 23 + k)) for k in range(1 if quick else 3)]
    for i, cfg in enumerate(_graphs(seed + 200, ng - len(fam2), tie_every=2, handmade=2) + fam2):
        rng = random.Random(seed + i)
        runs = []
        for s in range(nsch):
            style = s % 3
            n = rng.randint(3, 7)
            hist = _hist_step(n) if style == 0 else (_hist_run(n) if style == 1 else _hist_step(n, override_every=2))
            # every sixth schedule is a one-preemption sweep (the user thread held back for a fixed number of worker points after each call)
            sched = dict(seed=seed * 1000 + s, policy="sweep", hold=(7 * s + i) % 37) if s % 6 == 5 else dict(seed=seed * 1000 + s, policy=POLICIES[s % 5])
            runs.append(dict(history=hist, sched=sched))
        for rtf in ([0, 20] if quick else [0, 5, 20]):
            jobs.append(dict(kind="async", id=f"c02g{i}rtf{rtf}", cfg=cfg, seed=seed + i, gate=True, rtf=rtf, runs=runs if rtf == 0 else runs[:4], ref=True, fixed_gs_eps=0, timeout=900))
        # free-running threads (real OS scheduling), throttled and not
        jobs.append(dict(kind="async", id=f"c02g{i}free", cfg=cfg, seed=seed + i, gate=False, rtf=0, ref=True, fixed_gs_eps=0, timeout=600,
                         runs=[dict(history=_hist_step(5)), dict(history=_hist_run(6)), dict(history=_hist_step(4, override_every=2))]))
        jobs.append(dict(kind="async", id=f"c02g{i}free8", cfg=cfg, seed=seed + i, gate=False, rtf=8, ref=True, fixed_gs_eps=0, timeout=600,
                         runs=[dict(history=_hist_step(4)), dict(history=_hist_run(4))]))
    res = engine.run_campaign(rep, jobs, {"C02"})
    # cross-job agreement (different real-time factors / free vs gated of the same configuration): first trace of each job
    by_cfg = {}
    for job, run, t, m, v in res:
        by_cfg.setdefault(job["id"].split("rtf")[0].split("free")[0], []).append((job, t, v))
    cross = []
    for key, lst in by_cfg.items():
        acc = [(j, t) for j, t, v in lst if v["verdict"] == "accept"]
        if len(acc) > 1:
            base = acc[0][1]
            seen = set()
            for j, t in acc[1:]:
                if j["id"] in seen or j["id"] == acc[0][0]["id"]:
                    continue
                seen.add(j["id"])
                t2 = dict(t)
                t2["id"] = t["id"] + "~x~" + base["id"]
                from .. import trace as tr

                t2["ref"] = tr.as_ref(base)
                cross.append((j, t2))
    if cross:
        vs, st2 = engine.validate_parallel([t for _, t in cross])
        rep.add_tlc(st2)
        rep.cov["traces_validated_against_impl"] += len(cross)
        for (j, t), v in zip(cross, vs):
            if v["verdict"] != "accept" and engine.CLAUSE_PROPS.get(v["clause"], set()) & {"C02"}:
                rep.violation(dict(clause=v["clause"]), dict(kind="async_cross", job={k: j[k] for k in j if k != "runs"}, trace_id=t["id"], verdict=v),
                              text=f"{t['id']}: records of two runs of the same configuration disagree: {v['detail'][:600]}")
    # a run that is not a behaviour of the law while another run of the same configuration and initial state is: the two
    # records are compared directly (table-only mode); a disagreement on the common prefix is schedule dependence
    tab = []
    for key, lst in by_cfg.items():
        acc = [t for j, t, v in lst if v["verdict"] == "accept"]
        rej = [(j, t, v) for j, t, v in lst if v["verdict"] != "accept" and not (engine.CLAUSE_PROPS.get(v["clause"], set()) & {"C02"})]
        if acc and rej:
            from .. import trace as tr

            for j, t, v in rej:
                t2 = {k: t[k] for k in t if k != "ref"}
                t2["id"] = t["id"] + "~tab~" + acc[0]["id"]
                t2["ref"] = tr.as_ref(acc[0])
                t2["reflog"] = {n: [] for n in t["log"]}
                t2["flags"] = dict(t["flags"], tableonly=True)
                tab.append((j, t2, v))
    if tab:
        vs, st3 = engine.validate_parallel([t for _, t, _ in tab])
        rep.add_tlc(st3)
        for (j, t, v0), v in zip(tab, vs):
            if v["verdict"] != "accept":
                rep.violation(dict(clause=v["clause"], kind="schedule_dependent"),
                              dict(kind="async_cross", job={k: j[k] for k in j if k != "runs"}, trace_id=t["id"], verdict=v, law_verdict=v0),
                              text=f"{t['id']}: this run is not a behaviour of the law ({v0['clause']}) and differs from another run of the same "
                                   f"configuration and initial state: {v['detail'][:500]}")
    for job, run, t, m, v in res:
        if v["verdict"] == "accept":
            rep.nontrivial((job["id"], json.dumps(run.get("sched"), sort_keys=True), tuple(run["history"])))
        rep.sample(_sample_of(job, run, t, m, v))
    rep.cov["rule"] = ("per configuration: gate schedules (random, burst, PCT, user-first, user-last policies; ~1500 scheduling points each) x driving "
                       "style (reset/step, run, step with override by the supervisor's own result) x real-time factor (0, 5/20 under virtual time, 8 "
                       "with real sleeping) plus free-running OS threads; every record and every supervisor StepState must be a behaviour of RexLaw and "
                       "agree with the first run on the common prefix. distinct = distinct (job, schedule, history) with an accepted trace")
    rep.assumptions += ["what the supervisor observes = the supervisor's own StepState returned by reset()/step() (other nodes' entries in the returned GraphState are a racy snapshot by design)",
                        "grid time domain (DESIGN 3.1) for the exact tier; continuous delay distributions: runs under different gate schedules / free threads agree on "
                        "the common prefix after projection to microseconds (RexOrder, clause DeterministicAcrossSchedules)",
                        "gate scheduling points as listed in DESIGN Appendix A"]
    # off-grid: Normal / mixture / off-grid deterministic delays; the same initial graph state under 3 (6) schedules, a third of the graphs on free threads
    ojobs = []
    for i, cfg in enumerate(_graphs(seed + 250, 4 if quick else 24, tie_every=0, handmade=0)):
        ojobs.append(dict(kind="pyfunc", module="harness.order", func="order_job", id=f"c02o{i}", cfg=cfg, seed=seed + i, mode="continuous",
                          nsteps=6 if quick else 10, episodes=3 if quick else 6, policy=POLICIES[i % 5], gated=(i % 3 != 2), timeout=600))
    ostats = engine.run_order_campaign(rep, ojobs)
    return rep.finish(dict(order_tier=ostats))


def c06(tier, seed):
    """Async half: the probe log is the execution count (clauses ExactlyOnce*). The compiled half lives in compiledchecks."""
    from . import compiledchecks

    rep = common.Report("C06", tier, seed)
    quick = tier == "quick"
    jobs = []
    ng = 6 if quick else 32
    for i, cfg in enumerate(_graphs(seed + 600, ng)):
        rng = random.Random(seed + i)
        jit = [True, False, {cfg["nodes"][0]["name"]: False}][i % 3]
        if isinstance(jit, dict):
            jit = {n["name"]: jit.get(n["name"], True) for n in cfg["nodes"]}
        runs = [dict(history=_hist_step(rng.randint(4, 8), override_every=(0 if i % 2 else 3)) + _hist_run(rng.randint(2, 5)))]
        jobs.append(dict(kind="async", id=f"c06g{i}", cfg=cfg, seed=seed + i, gate=False, runs=runs, jit_step=jit, dirty_init=True,
                         use_callback=(True if jit is not False else (i % 2 == 0)), timeout=600))
    res = engine.run_campaign(rep, jobs, {"C06"})
    nexec = 0
    for job, run, t, m, v in res:
        if v["verdict"] == "accept":
            rep.nontrivial(t["id"])
            nexec += sum(len(v2) for v2 in t["log"].values())
        rep.sample(_sample_of(job, run, t, m, v))
    # outside an episode: a warmup that was not asked to profile executes no step function
    wj = [dict(kind="pyfunc", module="harness.jobs_async", func="warmup_exec_job", id=f"c06w{i}", cfg=cfg, seed=seed + i, timeout=600)
          for i, cfg in enumerate(_graphs(seed + 600, 2))]
    for r in common.run_jobs(wj, timeout=900):
        if not r.get("ok"):
            raise common.MachineryError(r.get("error", "")[-2500:])
        for x in r["results"]:
            rep.cov["evaluations"] += 1
            if x["executions"]:
                rep.violation(dict(kind="warmup_executes_step_functions", jit_step=x["jit_step"]), dict(kind="warmup_exec", job={k: r["job"][k] for k in ("id", "cfg", "seed")}, result=x),
                              text=f"{r['job']['id']}: AsyncGraph.warmup(profile={{one node: False}}, jit_step={x['jit_step']}) executed step functions {x['executions']} times "
                                   f"(nodes {x['nodes']}) although no node was to be profiled")
    compiledchecks.c06_compiled(rep, tier, seed)
    rep.cov["rule"] = ("threaded runtime: per graph one reset/step episode (every 3rd step overridden through step(gs, ss, out)) and one run() episode, "
                       "jit_step on / off / mixed per node; the probe log must contain exactly one execution per recorded tick with that tick's sequence "
                       "number, none for overridden supervisor ticks and for the tick cancelled by stop(); a warmup not asked to profile executes none. compiled runtime: see compiled_part")
    rep.cov["step_executions_checked"] = nexec
    return rep.finish()


def c13_async_jobs(tier, seed):
    quick = tier == "quick"
    jobs = []
    ng = 2 if quick else 6
    flags = ["params", "rng", "inputs", "state", "output"]
    combos = list(itertools.product([True, False], repeat=5))
    rng0 = random.Random(seed)
    if quick:
        combos = [combos[0]] + rng0.sample(combos[1:], 5)
    from .. import families
    # first graph: a producer much faster than its consumers (every recorded step consumes several messages: a truncated record must still
    # hold all messages its recorded steps consumed - seeded change C13-a capped the message record by max_records)
    fam = [families.fast_chain(random.Random(seed * 7 + 1)), families.overrun_freq(random.Random(seed * 7 + 2))]
    for i, cfg in enumerate(fam + _graphs(seed + 1300, ng)):
        hist = _hist_step(6) + _hist_run(5)
        # reference: everything recorded
        k = 0
        for combo in (combos if i >= len(fam) else combos[:1]):
            for mr in ([None] if combo != combos[0] else [None, 1, 3]):
                rec = dict(zip(flags, combo))
                jobs.append(dict(kind="async", id=f"c13g{i}k{k}", cfg=cfg, seed=seed + i, gate=False, record=rec, max_records=mr, vary_params=True,
                                 runs=[dict(history=hist)], group=f"c13g{i}", truncated=mr is not None, timeout=600))
                k += 1
    return jobs


# ------------------------------------------------------------------------------------------------
C05_HISTORIES = {
    "run_stop_twice": ["run", "run", "run", "stop", "run", "run", "stop"],
    "step_stop_twice": ["reset", "step", "step", "step", "stop", "reset", "step", "step", "stop"],
    "stop_right_after_start": ["run", "stop", "reset", "stop", "run", "run", "stop"],
    "stops_everywhere": ["stop", "stop", "reset", "step", "stop", "stop", "run", "stop", "stop"],
    "reset_without_stop": ["reset", "reset", "step", "step", "stop"],
    "run_then_reset": ["run", "run", "reset", "step", "step", "stop"],
    "override_then_run": ["reset", "step!", "step", "stop", "run", "run", "stop"],
    "many_short_episodes": ["run", "stop", "run", "stop", "run", "stop", "reset", "stop"],
}


def _mc_sync(rep, quick):
    """RexSync: exhaustive check of the repaired hand-shake; the pinned variant must exhibit the stall and the IndexError."""
    runs = []
    r = tlc.run_tlc("MC_RexSync", cfg="MC_RexSync_fixed.cfg" if quick else "MC_RexSync_fixed_deep.cfg", workers=common.NPROC, deadlock=True,
                    timeout=3000, heap="12g")
    st = r["stats"]
    if not st["finished"] and not st["error"]:
        raise common.MachineryError("MC_RexSync (fixed) did not finish:\n" + r["out"][-2000:])
    rep.add_tlc(st)
    runs.append(dict(module="MC_RexSync", variant="Fixed=TRUE", states=st["distinct"], transitions=st["generated"], wall_s=round(r["wall"], 1),
                     result="no deadlock, no invariant violation" if not st["error"] else "VIOLATED"))
    model_ok = not st["error"] and not st["invariant_violated"]
    detail = ""
    if not model_ok:
        detail = r["out"][-2500:]
    # vacuity guard: the same model with stop() as pinned must find both defects
    r1 = tlc.run_tlc("MC_RexSync", cfg="MC_RexSync_pinned_stall.cfg", workers=common.NPROC, deadlock=True, timeout=1200)
    r2 = tlc.run_tlc("MC_RexSync", cfg="MC_RexSync_pinned.cfg", workers=common.NPROC, deadlock=True, timeout=1200)
    found_stall = any("Deadlock" in e for e in r1["stats"]["error"])
    found_raise = "NoRaise" in r2["stats"]["invariant_violated"]
    runs.append(dict(module="MC_RexSync", variant="Fixed=FALSE", finds_lost_wakeup=found_stall, finds_indexerror_race=found_raise))
    rep.cov["model_runs"] = runs
    if not (found_stall and found_raise):
        raise common.MachineryError("RexSync no longer finds the pinned stop() defects (vacuity guard)")
    return model_ok, detail


def c05(tier, seed):
    rep = common.Report("C05", tier, seed)
    quick = tier == "quick"
    model_ok, detail = _mc_sync(rep, quick)
    if not model_ok:
        # the model is implementation-shaped; a stall state in it is replayed against the code by the gate below.
        rep.note("RexSync (Fixed=TRUE) has a stall / invariant violation: " + detail[-800:])
    jobs = []
    ng = 3 if quick else 10
    nsch = 6 if quick else 40
    hists = list(C05_HISTORIES.items())
    for i, cfg in enumerate(_graphs(seed + 500, ng)):
        for hname, hist in hists:
            runs = [dict(history=hist, sched=dict(seed=seed * 1000 + s * 31 + i, policy=POLICIES[(s + i) % 5])) for s in range(nsch)]
            jobs.append(dict(kind="async", id=f"c05g{i}/{hname}", cfg=cfg, seed=seed + i, gate=True, runs=runs, keep_choices=False, dirty_init=True, timeout=1200))
        # one-preemption sweep: after every API call the user thread is held back for exactly j scheduling points of the workers, then runs alone:
        # the next call (in particular stop() directly after run()/step()) begins at every instant of the workers' progress near the boundary
        if i < (2 if quick else 6):
            for hname in ("run_stop_twice", "step_stop_twice", "run_then_reset"):
                runs = [dict(history=C05_HISTORIES[hname], sched=dict(seed=seed * 1000 + j, policy="sweep", hold=j)) for j in range(0, 36 if quick else 72)]
                jobs.append(dict(kind="async", id=f"c05g{i}/sweep_{hname}", cfg=cfg, seed=seed + i, gate=True, runs=runs, keep_choices=False, timeout=1500))
        # free-running threads on the riskiest histories (watchdog expiry alone is inconclusive)
        jobs.append(dict(kind="async", id=f"c05g{i}/free", cfg=cfg, seed=seed + i, gate=False, call_timeout=60, timeout=600,
                         runs=[dict(history=C05_HISTORIES["stop_right_after_start"]), dict(history=C05_HISTORIES["many_short_episodes"])]))
    lifecycle_runs = [0]

    def on_event(ev, job, run):
        if ev["kind"] == "deadlock" and "'livelock': True" in ev["detail"] and (run.get("sched") or {}).get("policy") != "random":
            # the schedule bound was reached under a deliberately unfair policy (PCT / burst / user-last keep a never-blocking source node
            # running; every other thread only gets the fairness quota): slow progress, not a stall. rex assumes a fair OS scheduler.
            rep.note(f"{job['id']} history={run['history']} sched={run.get('sched')}: schedule bound reached under an unfair policy (inconclusive): {ev['detail'][:120]}")
            return True
        if ev["kind"] in ("deadlock", "exception", "task_error"):
            sig = dict(kind=ev["kind"], history=job["id"].split("/")[-1])
            rep.violation(sig, dict(kind="lifecycle", job={k: job[k] for k in job if k != "runs"}, run=dict(history=run["history"], sched=run.get("sched")),
                                    event=ev),
                          text=f"{job['id']} history={run['history']} sched={run.get('sched')}: {ev['kind']}: {ev['detail'][:500]}")
            return True
        return False

    res = engine.run_campaign(rep, jobs, {"C05"}, extra_violation=on_event, timeout=1500)
    # isolation: a trace of a later episode that is rejected although the first episode of the same job was accepted
    first_ok = {}
    for job, run, t, m, v in res:
        if m["eps"] == 0:
            first_ok[job["id"]] = v["verdict"] == "accept"
    for job, run, t, m, v in res:
        rep.sample(_sample_of(job, run, t, m, v), limit=4)
        if v["verdict"] == "accept":
            if m["eps"] >= 1:
                rep.nontrivial((job["id"], json.dumps(run.get("sched"), sort_keys=True), m["eps"]))
            continue
        if m["eps"] >= 1 and first_ok.get(job["id"]) and not (engine.CLAUSE_PROPS.get(v["clause"], set()) & {"C05"}):
            rep.violation(dict(kind="isolation", clause=v["clause"]),
                          dict(kind="async_trace", job={k: job[k] for k in job if k != "runs"}, run=dict(history=run["history"], sched=run.get("sched")), verdict=v),
                          text=f"{t['id']}: episode {m['eps']} is not a behaviour of the law although episode 0 of the same graph is: {v['detail'][:500]}")
    # binding of the implementation-shaped model RexAsync to the code (coarse gate): internal traces; thorough: exhaustive MC_RexAsync
    from . import internalchecks

    it_cfgs = [double_tie_config(seed), double_tie_config(seed + 3)] + _graphs(seed + 550, 2 if quick else 8)
    it_hists = [["reset", "step", "step", "stop"], ["run", "run", "run", "stop"], ["run", "stop", "reset", "step", "stop"], ["reset", "stop"],
                ["stop", "run", "stop", "stop", "reset", "step", "stop"]]
    # the other clock: the same lifecycle histories under Clock.WALL_CLOCK (gate, strictly increasing virtual time, every step sleeps)
    wjobs = []
    for i, cfg in enumerate(_graphs(seed + 550, 2 if quick else 10)):
        runs = [dict(history=h, sched=dict(seed=seed * 1000 + 37 * i + k + s * 101, policy=POLICIES[(k + i + s) % 5]))
                for s in range(1 if quick else 3) for k, (hn, h) in enumerate(C05_HISTORIES.items())]
        wjobs.append(dict(kind="pyfunc", module="harness.order", func="wall_lifecycle_job", id=f"c05w{i}", cfg=cfg, seed=seed + i, runs=runs, timeout=1200))
    wres = common.run_jobs(wjobs, timeout=1500)
    wtraces, wstats = [], dict(histories=0, completed_episodes=0)
    for r in wres:
        if not r.get("ok"):
            if r.get("timeout"):
                rep.note(f"wall-clock lifecycle job {r['job']['id']} exceeded its wall-clock budget (inconclusive)")
                continue
            raise common.MachineryError(r.get("error", "")[-2500:])
        for run in r["runs"]:
            wstats["histories"] += 1
            lifecycle_runs[0] += 1
            for ev in run["events"]:
                if not on_event(ev, r["job"], run):
                    rep.note(f"{r['job']['id']}: {ev['kind']}: {ev['detail'][:200]}")
            for t in run["traces"]:
                wtraces.append((r["job"], run, t))
    if wtraces:
        wvs, wst = engine.validate_parallel([t for _, _, t in wtraces], module="RexOrder")
        rep.add_tlc(wst)
        rep.cov["traces_validated_against_impl"] += len(wtraces)
        for (job, run, t), v in zip(wtraces, wvs):
            if v["verdict"] == "accept":
                wstats["completed_episodes"] += 1
                continue
            if v["clause"] in ("StepSeqGapFree", "MsgSeqGapFree", "EpisodeClockStartsAtZero"):   # an episode that does not start from sequence number 0 / time 0
                rep.violation(dict(kind="wall_clock_isolation", clause=v["clause"]), dict(kind="wall_lifecycle", job={k: job[k] for k in job if k != "runs"}, run=dict(history=run["history"], sched=run["sched"]), verdict=v),
                              text=f"{t['id']} (wall clock) history={run['history']}: {v['detail'][:400]}")
            else:
                rep.note(f"wall-clock episode {t['id']} rejected by RexOrder clause {v['clause']} (belongs to C03)")
    rep.cov["wall_clock_lifecycle"] = wstats
    out_it, dl = internalchecks.internal_campaign(rep, "C05", it_cfgs, it_hists, 2 if quick else 6, seed, POLICIES)
    for o in dl:
        if "'livelock': True" in o["detail"] and (o.get("sched") or {}).get("policy") != "random":
            rep.note(f"{o['id']}: schedule bound reached under an unfair policy (inconclusive)")
            continue
        rep.violation(dict(kind="deadlock", history="internal"), dict(kind="lifecycle_internal", run=o), text=f"{o['id']}: logical deadlock / lifecycle exception under the coarse gate: {o['detail'][-300:]}")
    if not quick:
        internalchecks.mc_rexasync(rep, "MC_RexAsync_A2.cfg", common.NPROC)
        internalchecks.mc_rexasync(rep, "MC_RexAsync_B2.cfg", common.NPROC)
    nruns = sum(len(j["runs"]) for j in jobs)
    rep.cov["evaluations"] = nruns
    rep.cov["lifecycle_histories"] = {k: v for k, v in C05_HISTORIES.items()}
    rep.cov["rule"] = ("model: RexSync (PlusCal, one label per shared access of the synchronizer / lifecycle / executor gating) exhaustively for every "
                       "protocol history up to MaxCalls calls; implementation: for each generated graph, each lifecycle history and each gate schedule "
                       "(5 policies) the real AsyncGraph is driven one thread at a time; a logical deadlock, an exception from a lifecycle call or from a "
                       "worker task is a violation; every completed episode's record + probe log (payloads carry the episode number) must be a behaviour "
                       "of RexLaw starting at sequence number 0 / time 0. distinct = accepted traces of a second or later episode")
    rep.assumptions += ["supported graph class and call protocol of DESIGN 3.2", "simulated clock; the wall clock is covered in the thorough tier through virtual time",
                        "free-running watchdog expiry alone is inconclusive (DESIGN 3.4)"]
    return rep.finish()
