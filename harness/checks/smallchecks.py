"""Checks on configuration objects, graph algebra, generators, solvers, wrappers: C16, C14, C12, C10, C18, C19."""
import json
import os
import random
import re

from .. import common, tlc


# ================================================================================================
# C16  NodeConfig
# ================================================================================================
DIST_VALUES = {"D1": (1,), "D2": (2, 3)}


def _nodecfg_behaviours(seed, num, depth, maxlen):
    cfgp = os.path.join(tlc.SPECS, f"NodeConfig_sim_{seed}.cfg")
    with open(cfgp, "w") as f:
        # NodeConfigSim: the kind of every operation is chosen first (uniformly), so setters and round trips are as frequent as connects
        f.write('SPECIFICATION SimSpec\nCONSTANTS\n  Nodes = {"a", "b", "c"}\n  Delays = {0, 1, 3}\n  Dists = {"D1", "D2"}\n  MaxLen = %d\n'
                'INVARIANT PhaseIsLongestPath\nINVARIANT LoopIffCycle\nINVARIANT KeysUnique\nINVARIANT Emit\nCHECK_DEADLOCK FALSE\n' % maxlen)
    try:
        # TLC evaluates the Emit invariant on EVERY successor it generates, not only on the one the walk continues with: a walk of 2 x depth
        # steps prints ~2 000 lines (all siblings of every step). Read enough lines for `num` walks; c16 keeps the walks and a sample of siblings.
        lines, tail = tlc.stream_tlc("NodeConfigSim", os.path.basename(cfgp), '"NCFG|', 1500 * num, depth=2 * depth, seed=seed + 1, timeout=900)
    finally:
        os.remove(cfgp)
    if "is violated" in tail or "Error:" in tail:
        raise common.MachineryError("NodeConfig simulation: " + tail[-2000:])
    states = {}
    for line in lines:
        line = line.strip()
        body = line[6:-1].replace('\\"', '"')
        d = json.loads(body)
        states[json.dumps(d["hist"], sort_keys=True)] = d
    return states, dict(stats=dict(generated=len(lines), distinct=len(states)))


def nodecfg_replay_job(job):
    """Replay NodeConfig behaviours on real BaseNode objects; compare the projected abstract state after every call."""
    from ..probes import GRID, GridDist, ProbeNode
    from rex.constants import Jitter

    def dist_of(did, tag=0):
        return GridDist.create(DIST_VALUES[did], tag=tag)

    def dist_id(d):
        vals = tuple(getattr(d, "values", ()))
        for k, v in DIST_VALUES.items():
            if v == vals:
                return k
        return f"?{vals}"

    def grid(x):
        return int(round(float(x) * GRID))

    def project(nodes, use_info):
        out = {}
        for name, n in nodes.items():
            try:
                ph = grid(n.phase)
            except RecursionError:
                ph = -1
            ent = dict(delay=grid(n.delay), dist=dist_id(n.delay_dist), phase=ph, inputs=[])
            info = None
            if use_info and ph >= 0:
                try:
                    info = n.info
                except RecursionError:
                    info = None  # a (skipped) input comes from a node with an algebraic loop upstream: its connection phase is undefined
            if info is not None:
                ent = dict(delay=grid(info.delay), dist=dist_id(info.delay_dist), phase=grid(info.phase), inputs=[])
                by_src = {c.output_node.name: k for k, c in n.inputs.items()}
                for src, ii in info.inputs.items():
                    ent["inputs"].append(dict(key=ii.name, src=ii.output, skip=bool(ii.skip), delay=grid(ii.delay), dist=dist_id(ii.delay_dist),
                                              window=int(ii.window), blocking=bool(ii.blocking), phase=grid(ii.phase)))
            else:
                for key, c in n.inputs.items():
                    try:
                        cph = grid(c.phase)
                    except RecursionError:
                        cph = -1
                    ent["inputs"].append(dict(key=key, src=c.output_node.name, skip=bool(c.skip), delay=grid(c.delay), dist=dist_id(c.delay_dist),
                                              window=int(c.window), blocking=bool(c.blocking), phase=cph))
            ent["inputs"].sort(key=lambda x: x["src"])
            out[name] = ent
        return out

    def norm(abs_):
        out = {}
        for name, n in abs_["nodes"].items():
            e = dict(delay=n["delay"], dist=n["dist"], phase=n["phase"], inputs=sorted([dict(i) for i in n["inputs"]], key=lambda x: x["src"]))
            out[name] = e
        return out

    results = []
    for beh in job["behaviours"]:
        hist = beh["hist"]
        init = beh["init_delays"]
        nodes = {k: ProbeNode(name=k, rate=GRID / 4, delay=init[k] / GRID, delay_dist=dist_of("D1"), nid=i) for i, k in enumerate(sorted(init))}
        bad = None
        hist = list(hist)
        abs_after = list(beh["abs_after"])
        if abs_after and all(n["phase"] >= 0 for n in abs_after[-1]["nodes"].values()) and hist[-1]["op"] != "round_trip":
            # RoundTrip is enabled in every loop-free state and is the identity: append it to every behaviour
            hist.append(dict(op="round_trip"))
            abs_after.append(abs_after[-1])
        for step, (op, expected) in enumerate(zip(hist, abs_after)):
            try:
                if op["op"] == "connect":
                    nodes[op["dst"]].connect(nodes[op["src"]], blocking=op["blocking"], delay=op["delay"] / GRID, delay_dist=dist_of(op["dist"]),
                                             window=op["window"], skip=op["skip"], jitter=Jitter.LATEST,
                                             name=("in_" + op["src"]) if op["shadow"] else None)
                elif op["op"] == "set_node_delay":
                    nodes[op["node"]].set_delay(delay_dist=None if op["dist"] == "keep" else dist_of(op["dist"]),
                                                delay=None if op["delay"] == -1 else op["delay"] / GRID)
                elif op["op"] == "set_conn_delay":
                    c = [c for c in nodes[op["dst"]].inputs.values() if c.output_node.name == op["src"]][0]
                    c.set_delay(delay_dist=None if op["dist"] == "keep" else dist_of(op["dist"]), delay=None if op["delay"] == -1 else op["delay"] / GRID)
                elif op["op"] == "round_trip":
                    infos = {k: n.info for k, n in nodes.items()}
                    new = {k: ProbeNode.from_info(info, nid=nodes[k].nid) for k, info in infos.items()}
                    for k, n in new.items():
                        n.connect_from_info(infos[k].inputs, new)
                    nodes = new
            except Exception as e:  # noqa
                bad = dict(step=step, op=op, error=repr(e)[:300])
                break
            exp = norm(expected)
            got_attr = project(nodes, use_info=False)
            got_info = project(nodes, use_info=True)
            if got_attr != exp:
                bad = dict(step=step, op=op, view="attributes", expected=exp, got=got_attr)
                break
            if got_info != exp:
                bad = dict(step=step, op=op, view="info", expected=exp, got=got_info)
                break
            # one connection per (sender, receiver): the sender's registry (outputs: what the threaded runtime, generate_graphs and apply_window
            # read) must hold the very connection the receiver's registry (inputs: what phases and infos read) holds
            stale = [(k, key) for k, n in nodes.items() for key, c in n.inputs.items() if c.output_node.outputs.get(k) is not c]
            if stale:
                bad = dict(step=step, op=op, view="registry", expected="sender.outputs[receiver] is receiver.inputs[key]", got=[list(x) for x in stale])
                break
        results.append(dict(hist=hist, ok=bad is None, bad=bad))
    return dict(results=results)


def c16(tier, seed):
    rep = common.Report("C16", tier, seed)
    quick = tier == "quick"
    # 1. exhaustive: invariants of the configuration machine
    cfgp = os.path.join(tlc.SPECS, "NodeConfig_mcq.cfg")
    with open(cfgp, "w") as f:
        f.write('SPECIFICATION Spec\nCONSTANTS\n  Nodes = {"a", "b", "c"}\n  Delays = {0, 2}\n  Dists = {"D1"}\n  MaxLen = %d\nVIEW ViewNoHist\nCONSTRAINT SmallConns\n'
                'INVARIANT PhaseIsLongestPath\nINVARIANT LoopIffCycle\nINVARIANT KeysUnique\nCHECK_DEADLOCK FALSE\n' % (3 if quick else 4))
    try:
        r = tlc.run_tlc("NodeConfig", cfg="NodeConfig_mcq.cfg", workers=common.NPROC, timeout=3000, heap="8g")
    finally:
        os.remove(cfgp)
    st = r["stats"]
    if not st["finished"] or st["invariant_violated"] or st["error"]:
        raise common.MachineryError("NodeConfig exhaustive: " + r["out"][-2500:])
    rep.add_tlc(st)
    rep.cov["model_runs"] = [dict(module="NodeConfig", states=st["distinct"], transitions=st["generated"], wall_s=round(r["wall"], 1))]
    # 2. behaviours from TLC's simulator replayed on real nodes
    states, r2 = _nodecfg_behaviours(seed, 150 if quick else 500, 8, 7)   # walks; ~1 500 printed states each
    rep.add_tlc(r2["stats"])
    # maximal histories and the abstract state after each prefix
    # a printed state is either on a walk (it has printed successors) or a sibling that the walk did not continue with; every one of them is
    # a reachable state with its full history. Behaviours to replay: per parent state a seeded sample of its children (so that every kind of
    # last operation - connect, both setters, round trip - is replayed after every walked prefix)
    parents = {}
    for k, d in states.items():
        if len(d["hist"]) >= 2:
            parents.setdefault(json.dumps(d["hist"][:-1], sort_keys=True), []).append(k)
    is_parent = set(parents)
    rs = random.Random(seed)
    chosen = []
    for pk, kids in sorted(parents.items()):
        leaves = sorted(k for k in kids if k not in is_parent)
        by_op = {}
        for k in leaves:
            by_op.setdefault(states[k]["hist"][-1]["op"], []).append(k)
        for op, ks in sorted(by_op.items()):
            chosen += rs.sample(ks, min(len(ks), 3))
    behaviours = []
    for k in chosen:
        d = states[k]
        hist = d["hist"]
        abs_after = []
        ok = True
        for i in range(2, len(hist) + 1):
            pk = json.dumps(hist[:i], sort_keys=True)
            if pk not in states:
                ok = False
                break
            abs_after.append(states[pk]["abs"])
        if not ok:
            continue
        behaviours.append(dict(hist=hist[1:], abs_after=abs_after, init_delays=hist[0]["delays"]))
    if not behaviours:
        raise common.MachineryError("no behaviours extracted from TLC simulation")
    chunks = [behaviours[i::8] for i in range(8)]
    jobs = [dict(kind="pyfunc", module="harness.checks.smallchecks", func="nodecfg_replay_job", id=f"c16r{i}", behaviours=ch, timeout=900) for i, ch in enumerate(chunks) if ch]
    results = common.run_jobs(jobs)
    nrep = 0
    for res in results:
        if not res.get("ok"):
            raise common.MachineryError(res.get("error", "")[-2500:])
        for rr in res["results"]:
            nrep += 1
            ops = [o["op"] for o in rr["hist"]]
            if rr["ok"]:
                if "round_trip" in ops or any(o.startswith("set_") for o in ops):
                    rep.nontrivial(json.dumps(rr["hist"], sort_keys=True))
                rep.sample(dict(history=rr["hist"], verdict="conforms"), limit=3)
                continue
            b = rr["bad"]
            op = b["op"]
            sig = dict(op=op["op"])
            if op["op"] in ("set_node_delay", "set_conn_delay"):
                sig["dist_given"] = op["dist"] != "keep"
            if op["op"] == "round_trip":
                sig["shadow_names"] = any(o["op"] == "connect" and o["shadow"] for o in rr["hist"])
            rep.violation(sig, dict(kind="nodecfg_history", history=rr["hist"], bad=b),
                          text=f"after {op}: real nodes differ from NodeConfig ({b.get('view', 'exception')}): {json.dumps(b)[:700]}")
    rep.cov["traces_validated_against_impl"] = nrep
    rep.cov["evaluations"] = nrep
    # 3. takes effect in subsequent simulation: episodes after set_delay validated by RexTrace with the NEW supports / expected delays
    from . import engine
    from .asyncchecks import _hist_step

    jobs = []
    for i in range(4 if quick else 12):
        jobs.append(dict(kind="pyfunc", module="harness.checks.smallchecks", func="setdelay_sim_job", id=f"c16s{i}", seed=seed * 100 + i, handmade=(i == 0), timeout=900))
    sres = common.run_jobs(jobs)
    traces = []
    for res in sres:
        if not res.get("ok"):
            raise common.MachineryError(res.get("error", "")[-2500:])
        traces += [(res["job"], t) for t in res["traces"]]
    if traces:
        vs, st3 = engine.validate_parallel([t for _, t in traces])
        rep.add_tlc(st3)
        rep.cov["traces_validated_against_impl"] += len(traces)
        for (job, t), v in zip(traces, vs):
            if v["verdict"] != "accept":
                rep.violation(dict(kind="set_delay_in_simulation", clause=v["clause"]), dict(kind="setdelay_sim", job=job, verdict=v),
                              text=f"{t['id']}: episode after set_delay is not a behaviour of the law with the NEW delays: {v['detail'][:600]}")
            else:
                rep.nontrivial(t["id"])
    rep.cov["rule"] = ("NodeConfig (TLC): all configurations reachable by connect / set_delay / info round trip over 3 nodes satisfy PhaseIsLongestPath, "
                       "LoopIffCycle; TLC's simulator emits behaviours (history + abstract state after every call) that are replayed on real BaseNode "
                       "objects: phase (or algebraic-loop RecursionError), expected delays, distribution identity, input keys incl. shadow names, read "
                       "both from attributes and from node.info; round trip through from_info + connect_from_info must be the identity; episodes "
                       "simulated after set_delay must follow the law with the new distributions / expected delays. non-trivial = behaviour with a setter or a round trip")
    return rep.finish()


def setdelay_sim_job(job):
    """Build a graph, change delays through set_delay on nodes and connections, simulate, and return a RexTrace trace whose config carries the NEW values."""
    import jax

    from .. import arun, gen, trace
    from ..probes import GRID, GridDist

    rng = random.Random(job["seed"])
    cfg = gen.gen_config(rng, n_nodes=rng.choice([2, 3]))
    if job.get("handmade"):
        # sender and receiver with incommensurate periods, non-blocking connection that will become a BUFFER connection with a large expected
        # delay: receiver steps regularly start between a message's actual and its expected arrival
        cfg = dict(nodes=[dict(name="s", nid=0, period=4, delay=0, cdist=[0], advance=False, sched="F", p=3),
                          dict(name="r", nid=1, period=6, delay=1, cdist=[1], advance=False, sched="F", p=5)],
                   conns=[{"out": "s", "in": "r", "name": "s", "blocking": False, "skip": False, "jitter": "L", "window": 2, "delay": 0, "cdist": [0]},
                          {"out": "r", "in": "s", "name": "in_r", "blocking": False, "skip": True, "jitter": "L", "window": 1, "delay": 0, "cdist": [0, 1]}],
                   sup="r")
    h = arun.AsyncHarness.__new__(arun.AsyncHarness)
    # build nodes by hand so that set_delay can be applied before the AsyncGraph is created
    nodes = gen.build_nodes(cfg)
    tag = 100
    for n in cfg["nodes"]:
        if rng.random() < 0.7:
            new = sorted(set(rng.sample([0, 1, 2, 3, 5], rng.choice([1, 2]))))
            nd = rng.choice([0, 1, max(new)])
            tag += 1
            nodes[n["name"]].set_delay(delay_dist=GridDist.create(new, tag=tag), delay=nd / GRID)
            n["cdist"], n["delay"] = new, nd
    for c in cfg["conns"]:
        if rng.random() < 0.7:
            new = sorted(set(rng.sample([0, 1, 2, 3, 5], rng.choice([1, 2]))))
            cd = rng.choice([0, 1, max(new)])
            tag += 1
            conn = [x for x in nodes[c["in"]].inputs.values() if x.output_node.name == c["out"]][0]
            conn.set_delay(delay_dist=GridDist.create(new, tag=tag), delay=cd / GRID)
            c["cdist"], c["delay"] = new, cd
    # one non-blocking connection becomes a BUFFER connection whose expected delay (set through set_delay) exceeds every sampled delay:
    # its messages must be held back until their EXPECTED arrival - that is where a connection's expected delay shows in simulation
    nb = [c for c in cfg["conns"] if not c["blocking"]]
    if nb and (job["seed"] % 2 == 0 or job.get("handmade")):
        c = nb[0] if job.get("handmade") else nb[job["seed"] // 2 % len(nb)]
        conn = [x for x in nodes[c["in"]].inputs.values() if x.output_node.name == c["out"]][0]
        from rex.constants import Jitter
        conn.jitter = Jitter.BUFFER
        tag += 1
        conn.set_delay(delay_dist=GridDist.create([0, 1], tag=tag), delay=3 / GRID)
        c["jitter"], c["cdist"], c["delay"] = "B", [0, 1], 3
    if not gen.is_supported(cfg):
        return dict(traces=[])
    import rex.asynchronous as ra
    from rex.constants import Clock

    h.cfg, h.nodes, h.sup = cfg, nodes, nodes[cfg["sup"]]
    h.graph = ra.AsyncGraph(nodes=dict(nodes), supervisor=h.sup, clock=Clock.SIMULATED, real_time_factor=0)
    h.record_settings = dict(params=True, rng=True, inputs=True, state=True, output=True)
    h.graph.set_record_settings(**h.record_settings)
    h.gs0 = h.graph.init(jax.random.PRNGKey(job["seed"]))
    h.graph.warmup(h.gs0)
    h.seed = job["seed"]
    init = h.initial()
    wd = lambda f, w: arun.call_with_watchdog(f, 60, w)  # noqa
    try:
        eps, _ = arun.run_history(h, ["reset"] + ["step"] * 5 + ["stop"], wd=wd)
    except arun.Hang:
        return dict(traces=[], note="watchdog")
    out = []
    for r in eps:
        if "record" in r:
            out.append(trace.build_trace(f"{job['id']}/e{r['eps']}", cfg, r, init, eps=r["gs_eps"], epsrec=r["eps"]))
    return dict(traces=out)


# ================================================================================================
# C12  generated / augmented graphs
# ================================================================================================
def _graph_tables(g, e):
    """base.Graph (batched) episode e -> verts/edges tables including padding rows."""
    import numpy as onp

    from ..probes import to_grid

    verts, edges = {}, {}
    for k, v in g.vertices.items():
        seq, ts, te = onp.asarray(v.seq)[e], onp.asarray(v.ts_start)[e], onp.asarray(v.ts_end)[e]
        verts[k] = [dict(seq=int(seq[j]), start=to_grid(ts[j]) if seq[j] >= 0 else -1, end=to_grid(te[j]) if seq[j] >= 0 else -1) for j in range(len(seq))]
        # padding rows keep their raw times out of the comparison
    for (a, b), ed in g.edges.items():
        so, si, tr = onp.asarray(ed.seq_out)[e], onp.asarray(ed.seq_in)[e], onp.asarray(ed.ts_recv)[e]
        edges[f"{a}>{b}"] = [{"out": int(so[j]), "in": int(si[j]), "recv": to_grid(tr[j]) if so[j] >= 0 else -1} for j in range(len(so))]
    return verts, edges


def gen_graph_job(job):
    """generate_graphs / augment_graphs on a grid configuration -> RexGen traces."""
    import jax
    import networkx as nx
    import numpy as onp

    from rex import base
    from rex.artificial import augment_graphs, generate_graphs
    from rex.utils import to_networkx_graph

    from .. import gen, trace
    from ..probes import GRID

    cfg = job["cfg"]
    tcfg = trace.tla_cfg(cfg)
    nodes = gen.build_nodes(cfg, log=False)
    ts_max, E = job["ts_max"], job["num_episodes"]
    g = generate_graphs(nodes, ts_max=ts_max / GRID, rng=jax.random.PRNGKey(job["seed"]), num_episodes=E)
    out = dict(traces=[], checks=[])
    for e in range(E):
        verts, edges = _graph_tables(g, e)
        out["traces"].append(dict(id=f"{job['id']}/gen/e{e}", cfg=tcfg, ts_max=ts_max, verts=verts, edges=edges,
                                  generated_nodes=sorted(verts), generated_conns=sorted(edges)))
        G = to_networkx_graph(jax.tree_util.tree_map(lambda x: x[e], g), nodes=nodes, validate=True)
        out["checks"].append(dict(kind="acyclic", trace=f"{job['id']}/gen/e{e}", ok=bool(nx.is_directed_acyclic_graph(G))))
    # augmentation: drop nodes / connections, let rex add them again
    rng = random.Random(job["seed"])
    names = [n["name"] for n in cfg["nodes"]]
    for ai in range(job.get("n_aug", 2)):
        drop_nodes = set(rng.sample(names, rng.choice([0, 1]))) if len(names) > 2 else set()
        keep_v = {k: v for k, v in g.vertices.items() if k not in drop_nodes}
        cand_e = [k for k in g.edges if k[0] not in drop_nodes and k[1] not in drop_nodes]
        drop_e = set(rng.sample(cand_e, rng.randint(0 if drop_nodes else 1, max(1, len(cand_e) // 2)))) if cand_e else set()
        keep_e = {k: v for k, v in g.edges.items() if k in cand_e and k not in drop_e}
        if not keep_v:
            continue
        sub = base.Graph(vertices=keep_v, edges=keep_e)
        aug = augment_graphs(sub, nodes, rng=jax.random.PRNGKey(job["seed"] + 17 + ai))
        for e in range(E):
            bv, be = _graph_tables(sub, e)
            av, ae = _graph_tables(aug, e)
            tsm = max([r["end"] for rows in bv.values() for r in rows if r["seq"] >= 0] + [0])
            out["traces"].append(dict(id=f"{job['id']}/aug{ai}/e{e}", cfg=tcfg, ts_max=10 ** 6,  # no horizon is requested from augment_graphs
                                      verts=av, edges=ae, before=dict(verts=bv, edges=be),
                                      generated_nodes=sorted(set(av) - set(bv)), generated_conns=sorted(set(ae) - set(be))))
            # bitwise: every array of the input reappears in the output
            same = all(onp.array_equal(onp.asarray(getattr(aug.vertices[k], f)), onp.asarray(getattr(sub.vertices[k], f)))
                       for k in sub.vertices for f in ("seq", "ts_start", "ts_end"))
            same = same and all(onp.array_equal(onp.asarray(getattr(aug.edges[k], f)), onp.asarray(getattr(sub.edges[k], f)))
                                for k in sub.edges for f in ("seq_out", "seq_in", "ts_recv"))
            out["checks"].append(dict(kind="augment_bitwise", trace=f"{job['id']}/aug{ai}/e{e}", ok=bool(same)))
    # ragged stack: two generated episodes of different length, one node removed and added again. The horizon of an augmentation is per episode:
    # what rex derives from THAT episode's existing vertices (the largest ts_end stored in the episode's rows); nothing added may end after it
    if len(names) > 2:
        T2 = max(ts_max // 2, 8)
        ga = generate_graphs(nodes, ts_max=ts_max / GRID, rng=jax.random.PRNGKey(job["seed"] + 5), num_episodes=1)
        gb = generate_graphs(nodes, ts_max=T2 / GRID, rng=jax.random.PRNGKey(job["seed"] + 6), num_episodes=1)
        st = base.Graph.stack([jax.tree_util.tree_map(lambda x: x[0], ga), jax.tree_util.tree_map(lambda x: x[0], gb)])
        dn = names[job["seed"] % len(names)]
        sub = base.Graph(vertices={k: v for k, v in st.vertices.items() if k != dn},
                         edges={k: v for k, v in st.edges.items() if dn not in k})
        aug = augment_graphs(sub, nodes, rng=jax.random.PRNGKey(job["seed"] + 23))
        for e in range(2):
            hz = max(float(onp.asarray(v.ts_end)[e].max()) for v in sub.vertices.values())
            bv, be = _graph_tables(sub, e)
            av, ae = _graph_tables(aug, e)
            out["traces"].append(dict(id=f"{job['id']}/augragged/e{e}", cfg=tcfg, ts_max=int(round(hz * GRID)), verts=av, edges=ae, before=dict(verts=bv, edges=be),
                                      generated_nodes=sorted(set(av) - set(bv)), generated_conns=sorted(set(ae) - set(be))))
    return out


def c12(tier, seed):
    from . import engine
    from .asyncchecks import _graphs

    rep = common.Report("C12", tier, seed)
    quick = tier == "quick"
    jobs = []
    n = 10 if quick else 120
    cfgs = _graphs(seed + 1200, n, allow_blocking=False, allow_buffer=False, allow_advance=False, allow_phase_sched=False, tie_every=3)
    for i, cfg in enumerate(cfgs):
        rng = random.Random(seed + i)
        for nd in cfg["nodes"]:
            nd["sched"] = "F"
        jobs.append(dict(kind="pyfunc", module="harness.checks.smallchecks", func="gen_graph_job", id=f"c12g{i}", cfg=cfg, seed=seed * 10 + i,
                         ts_max=rng.choice([32, 48, 64, 128, 256]), num_episodes=rng.choice([1, 2, 3, 4]), n_aug=2, timeout=900))
    # graphs with one trainable connection whose distribution object currently holds a delay ABOVE its minimum: the generator (and an
    # augmentation that adds the connection) must still use the MINIMAL delay (the runtime adds the trainable part on top)
    for i in range(3 if quick else 16):
        cfg = c10_e2e_cfg(seed * 1000 + 9000 + i, jitter=(i % 2 == 1), skip=(i % 3 == 2))
        if cfg is None:
            continue
        tr = [c for c in cfg["conns"] if "train" in c][0]["train"]
        tr["d0"] = tr["max"] if i % 2 == 0 else (tr["min"] + tr["max"]) // 2
        for nd in cfg["nodes"]:
            nd["sched"] = "F"
        jobs.append(dict(kind="pyfunc", module="harness.checks.smallchecks", func="gen_graph_job", id=f"c12t{i}", cfg=cfg, seed=seed * 10 + 50 + i,
                         ts_max=48, num_episodes=2, n_aug=2, timeout=900))
    results = common.run_jobs(jobs)
    items = []
    for res in results:
        if not res.get("ok"):
            raise common.MachineryError(res.get("error", "")[-2500:])
        for c in res["checks"]:
            rep.cov["evaluations"] += 1
            if not c["ok"]:
                rep.violation(dict(kind=c["kind"]), dict(kind="gen_check", job={k: res["job"][k] for k in ("id", "cfg", "seed", "ts_max", "num_episodes")}, check=c),
                              text=f"{c}")
        items += [(res["job"], t) for t in res["traces"]]
    vs, st = engine.validate_parallel([t for _, t in items], module="RexGen")
    rep.add_tlc(st)
    rep.cov["traces_validated_against_impl"] = len(items)
    rep.cov["evaluations"] += len(items)
    for (job, t), v in zip(items, vs):
        nv = sum(1 for rows in t["verts"].values() for r in rows if r["seq"] >= 0)
        ne = sum(1 for rows in t["edges"].values() for r in rows if r["out"] >= 0)
        rep.sample(dict(trace=t["id"], ts_max=t["ts_max"], vertices=nv, messages=ne, augmented="before" in t, verdict=v["verdict"]))
        if v["verdict"] == "accept":
            if ne > 0:
                rep.nontrivial(t["id"])
            continue
        sig = dict(clause=v["clause"])
        rep.violation(sig, dict(kind="gen_trace", job={k: job[k] for k in ("id", "cfg", "seed", "ts_max", "num_episodes")}, trace_id=t["id"], verdict=v),
                      text=f"{t['id']} rejected by RexGen clause {v['clause']}: {v['detail'][:600]}")
    rep.cov["rule"] = ("seeded grid configurations (non-blocking, LATEST, FREQUENCY - what generate_graphs supports; multi-valued computation and communication "
                       "delays incl. reordering jitter, skip, windows 1-3, horizons 0.5-4 s, 1-4 episodes); every episode of generate_graphs() and of "
                       "augment_graphs() on a graph with nodes / connections removed is judged by RexGen: FirstStartIsPhase, SpacingAndNoOverlap, "
                       "DurationIsSampledDelay, NothingEndsAfterHorizon, PaddingOnlyAsSuffix, RecvIsEndPlusSampledDelay (FIFO-clamped), "
                       "AssignedToFirstStepAtOrAfterArrival, Augment* ; acyclicity through to_networkx_graph(validate=True). non-trivial = accepted graph with messages")
    rep.assumptions += ["dyadic rates only (the generator adds 1/rate unrounded)"]
    return rep.finish()


# ================================================================================================
# C14  records / graphs: convert, stack, pad, index, filter, networkx
# ================================================================================================
def _tables_of_graph(g, e=None):
    """base.Graph (single episode if e is None and arrays are 1-D) -> tables with ALL rows (padding included)."""
    import numpy as onp

    from ..probes import to_grid

    verts, edges = {}, {}
    for k, v in g.vertices.items():
        seq, ts, te = onp.asarray(v.seq), onp.asarray(v.ts_start), onp.asarray(v.ts_end)
        if e is not None:
            seq, ts, te = seq[e], ts[e], te[e]
        verts[k] = [dict(seq=int(seq[j]), start=(to_grid(ts[j]) if seq[j] >= 0 else -1), end=(to_grid(te[j]) if seq[j] >= 0 else -1)) for j in range(len(seq))]
    for (a, b), ed in g.edges.items():
        so, si, tr = onp.asarray(ed.seq_out), onp.asarray(ed.seq_in), onp.asarray(ed.ts_recv)
        if e is not None:
            so, si, tr = so[e], si[e], tr[e]
        edges[f"{a}>{b}"] = [{"out": int(so[j]), "in": int(si[j]), "recv": (to_grid(tr[j]) if so[j] >= 0 else -1)} for j in range(len(so))]
    return dict(verts=verts, edges=edges)


def _tables_of_record(rec):
    import numpy as onp

    from ..probes import to_grid

    steps, msgs = {}, {}
    for n, nr in rec.nodes.items():
        s = nr.steps
        steps[n] = [dict(seq=int(s.seq[j]), start=to_grid(s.ts_start[j]), end=to_grid(s.ts_end[j])) for j in range(len(onp.asarray(s.seq)))]
        for o, ir in (nr.inputs or {}).items():
            m = ir.messages
            msgs[f"{o}>{n}"] = [{"out": int(m.seq_out[j]), "in": int(m.seq_in[j]), "recv": to_grid(m.ts_recv[j])} for j in range(len(onp.asarray(m.seq_out)))]
    return dict(steps=steps, msgs=msgs)


def algebra_job(job):
    import itertools

    import jax

    from rex import base
    from rex.utils import to_networkx_graph

    from .. import compiled, gen
    from ..probes import to_grid
    from .asyncchecks import _hist_run, _hist_step

    cfg = job["cfg"]
    rng = random.Random(job["seed"])
    cases = []
    ends = {f"{c['out']}>{c['in']}": [c["out"], c["in"]] for c in cfg["conns"]}
    if job["source"] == "record":
        hists = [_hist_step(rng.randint(3, 7)), _hist_run(rng.randint(2, 8)), _hist_step(rng.randint(2, 5))][: rng.choice([2, 3])]
        try:
            g_stacked, eps, h = compiled.record_graphs(cfg, job["seed"], hists)
        except compiled.NoRecord:
            return dict(cases=[])
        nodes = h.nodes
        recs = [e["record_raw"] for e in eps]
        graphs = [r.to_graph() for r in recs]
        for i, (r, g) in enumerate(zip(recs, graphs)):
            cases.append(dict(id=f"{job['id']}/to_graph/e{i}", op="to_graph", rec=_tables_of_record(r), g=dict(verts=_tables_of_graph(g)["verts"], edges=_tables_of_graph(g)["edges"])))
        exp = base.ExperimentRecord(episodes=recs)
        st2 = exp.to_graph()
        # ExperimentRecord.stack (padded records) -> to_graph must agree with to_graph -> stack
        try:
            st3 = exp.stack("padded").to_graph()
            same = jax.tree_util.tree_all(jax.tree_util.tree_map(lambda a, b: bool((jax.numpy.asarray(a) == jax.numpy.asarray(b)).all()), st2, st3))
        except Exception as e:  # noqa
            same = f"exception {e!r}"[:200]
        cases_extra = [dict(kind="record_stack_then_to_graph", ok=(same is True), detail=str(same))]
        # an experiment whose episodes were recorded by SEPARATELY built (identical) systems: converting to graphs needs only the steps and
        # messages, not equal static metadata (seeded change C14-f converted through the record-level stack, which does)
        try:
            _, eps_b, _hb = compiled.record_graphs(cfg, job["seed"] + 17, hists[:1])
            recs_b = recs + [e["record_raw"] for e in eps_b]
            st_b = base.ExperimentRecord(episodes=recs_b).to_graph()
            tabs_b = [_tables_of_graph(r.to_graph()) for r in recs_b]
            strip_b = lambda t: dict(verts={k: [r for r in v if r["seq"] >= 0] for k, v in t["verts"].items()},  # noqa
                                     edges={k: [r for r in v if r["out"] >= 0] for k, v in t["edges"].items()})
            cases.append(dict(id=f"{job['id']}/stack_index/two_systems", op="stack_index", eps=[strip_b(t) for t in tabs_b],
                              indexed=[_tables_of_graph(st_b[i]) for i in range(len(recs_b))], len=len(st_b)))
        except compiled.NoRecord:
            pass
        except Exception as e:  # noqa
            cases_extra.append(dict(kind="experiment_of_two_systems_to_graph_raises", ok=False, detail=repr(e)[:300]))
    else:
        g_stacked, nodes = compiled.generated_graphs(cfg, job["seed"], rng.choice([24, 40, 64]), rng.choice([2, 3]))
        n_e = next(iter(g_stacked.vertices.values())).seq.shape[0]
        # generated episodes carry their own -1 rows (steps beyond the horizon)
        graphs = []
        for e in range(n_e):
            ge = jax.tree_util.tree_map(lambda x: x[e], g_stacked)
            graphs.append(ge)
        recs = None
        cases_extra = []
    eps_tabs = [_tables_of_graph(g) for g in graphs]
    stacked = base.Graph.stack(graphs)
    indexed = [_tables_of_graph(stacked[i]) for i in range(len(graphs))]
    strip = lambda t: dict(verts={k: [r for r in v if r["seq"] >= 0] for k, v in t["verts"].items()},  # noqa
                           edges={k: [r for r in v if r["out"] >= 0] for k, v in t["edges"].items()})
    cases.append(dict(id=f"{job['id']}/stack_index", op="stack_index", eps=[strip(t) for t in eps_tabs], indexed=indexed, len=len(stacked)))
    # every prefix of the episode list, down to a stack of ONE episode (and the single-episode ExperimentRecord): same law
    for k in range(1, len(graphs)):
        try:
            stk = base.Graph.stack(graphs[:k])
            idx_k = [_tables_of_graph(stk[i]) for i in range(k)]
            cases.append(dict(id=f"{job['id']}/stack_index/first{k}", op="stack_index", eps=[strip(t) for t in eps_tabs[:k]], indexed=idx_k, len=len(stk)))
            if recs is not None:
                stk2 = base.ExperimentRecord(episodes=recs[:k]).to_graph()
                idx_k2 = [_tables_of_graph(stk2[i]) for i in range(k)]
                cases.append(dict(id=f"{job['id']}/experiment_to_graph/first{k}", op="stack_index", eps=[strip(t) for t in eps_tabs[:k]], indexed=idx_k2, len=len(stk2)))
        except Exception as e:  # noqa  (an object that cannot be indexed / tabulated as an episode is not "the original episode")
            cases_extra.append(dict(kind="stack_of_k_cannot_be_indexed", k=k, ok=False, detail=repr(e)[:300]))
    names = [n["name"] for n in cfg["nodes"]]
    subsets = [s for r in range(1, len(names) + 1) for s in itertools.combinations(names, r)]
    rng.shuffle(subsets)
    for si, sel in enumerate(subsets[: job.get("n_subsets", 4)]):
        sub = {k: nodes[k] for k in sel}
        for flag in (True, False):
            gi = graphs[si % len(graphs)]
            out = gi.filter(sub, filter_edges=flag)
            cases.append(dict(id=f"{job['id']}/filter/{'+'.join(sel)}/{flag}", op="filter", g=_tables_of_graph(gi), sel=list(sel), flag=flag, ends=ends,
                              out=_tables_of_graph(out)))
            if recs is not None:
                r = recs[si % len(recs)]
                try:
                    ro = r.filter(sub, filter_connections=flag)
                    cases.append(dict(id=f"{job['id']}/record_filter/{'+'.join(sel)}/{flag}", op="record_filter", rec=_tables_of_record(r), sel=list(sel),
                                      flag=flag, ends=ends, out=_tables_of_record(ro)))
                except Exception as e:  # noqa
                    cases_extra.append(dict(kind="record_filter_raises", sel=list(sel), flag=flag, ok=False, detail=repr(e)[:300]))
    # filter nodes whose connection structure is a SUB-structure of the recorded system (the selection is made by the nodes handed to filter(), with
    # their own inputs): a sender that keeps one of its consumers and loses another, all three nodes selected
    import copy
    if len(cfg["conns"]) >= 2:
        for vi in range(2):
            cfg2 = copy.deepcopy(cfg)
            drop = rng.sample(range(len(cfg2["conns"])), rng.randint(1, max(1, len(cfg2["conns"]) // 2)))
            cfg2["conns"] = [c for j, c in enumerate(cfg2["conns"]) if j not in drop]
            nodes2 = gen.build_nodes(cfg2, log=False)
            ends2 = {f"{c['out']}>{c['in']}": [c["out"], c["in"]] for c in cfg2["conns"]}
            sel = tuple(names) if vi == 0 else tuple(rng.sample(names, max(2, len(names) - 1)))
            sub2 = {k: nodes2[k] for k in sel}
            gi = graphs[vi % len(graphs)]
            try:
                out2 = gi.filter(sub2, filter_edges=True)
                cases.append(dict(id=f"{job['id']}/filter_sub/{vi}", op="filter", g=_tables_of_graph(gi), sel=list(sel), flag=True, ends=ends2, out=_tables_of_graph(out2)))
                if recs is not None:
                    r = recs[vi % len(recs)]
                    ro = r.filter(sub2, filter_connections=True)
                    cases.append(dict(id=f"{job['id']}/record_filter_sub/{vi}", op="record_filter", rec=_tables_of_record(r), sel=list(sel), flag=True, ends=ends2,
                                      out=_tables_of_record(ro)))
                    # the same through ExperimentRecord.filter (every episode of the experiment; all nodes selected with fewer connections is the
                    # case a "nothing to drop" shortcut gets wrong: seeded change C14-h)
                    expf = base.ExperimentRecord(episodes=recs).filter(sub2, filter_connections=True)
                    for ei, (r0, r1) in enumerate(zip(recs, expf.episodes)):
                        cases.append(dict(id=f"{job['id']}/experiment_filter_sub/{vi}/e{ei}", op="record_filter", rec=_tables_of_record(r0), sel=list(sel), flag=True,
                                          ends=ends2, out=_tables_of_record(r1)))
            except Exception as e:  # noqa
                cases_extra.append(dict(kind="filter_with_substructure_raises", sel=list(sel), ok=False, detail=repr(e)[:300]))
    # a message that was sent but never consumed (seq_in = -1) in the MIDDLE of a connection (legal per the Edge docstring; e.g. a lossy
    # transport): the consumed messages after it are still relations of the graph
    try:
        import numpy as onp
        g0 = graphs[0]
        key = next(k for k, ed in sorted(g0.edges.items()) if int((onp.asarray(ed.seq_in) >= 0).sum()) >= 3)
        ed = g0.edges[key]
        si = onp.array(ed.seq_in)
        live = [j for j in range(len(si)) if si[j] >= 0]
        si[live[len(live) // 2]] = -1
        g_lost = base.Graph(vertices=dict(g0.vertices), edges={**dict(g0.edges), key: ed.replace(seq_in=si)})
        Gl = to_networkx_graph(g_lost, nodes=nodes)
        nxn = [dict(name=str(n), kind=d.get("kind", "?"), seq=int(d.get("seq", -7)), start=to_grid(d.get("ts_start", -7.0)), end=to_grid(d.get("ts_end", -7.0))) for n, d in Gl.nodes(data=True)]   # (a vertex networkx created for a dangling edge has no attributes: the case is rejected, not crashed on)
        nxe = [[str(u), str(v)] for u, v in Gl.edges()]
        cases.append(dict(id=f"{job['id']}/to_nx_lost_message", op="to_nx", g=_tables_of_graph(g_lost), ends=ends, nx=dict(nodes=nxn, edges=nxe)))
    except StopIteration:
        pass
    for i, g in enumerate(graphs[:2]):
        G = to_networkx_graph(stacked[i], nodes=nodes)
        nxn = [dict(name=str(n), kind=d.get("kind", "?"), seq=int(d.get("seq", -7)), start=to_grid(d.get("ts_start", -7.0)), end=to_grid(d.get("ts_end", -7.0))) for n, d in G.nodes(data=True)]   # (a vertex networkx created for a dangling edge has no attributes: the case is rejected, not crashed on)
        nxe = [[str(u), str(v)] for u, v in G.edges()]
        cases.append(dict(id=f"{job['id']}/to_nx/e{i}", op="to_nx", g=indexed[i], ends=ends, nx=dict(nodes=nxn, edges=nxe)))
    return dict(cases=cases, checks=cases_extra)


def c14(tier, seed):
    from . import engine
    from .asyncchecks import _graphs

    rep = common.Report("C14", tier, seed)
    quick = tier == "quick"
    jobs = []
    for i, cfg in enumerate(_graphs(seed + 1400, 5 if quick else 40)):
        jobs.append(dict(kind="pyfunc", module="harness.checks.smallchecks", func="algebra_job", id=f"c14r{i}", cfg=cfg, seed=seed * 10 + i, source="record",
                         n_subsets=4 if quick else 8, timeout=900))
    for i, cfg in enumerate(_graphs(seed + 1450, 5 if quick else 40, allow_blocking=False, allow_buffer=False, allow_advance=False, allow_phase_sched=False)):
        for nd in cfg["nodes"]:
            nd["sched"] = "F"
        jobs.append(dict(kind="pyfunc", module="harness.checks.smallchecks", func="algebra_job", id=f"c14g{i}", cfg=cfg, seed=seed * 10 + i, source="generate",
                         n_subsets=4 if quick else 8, timeout=900))
    results = common.run_jobs(jobs)
    items = []
    for res in results:
        if not res.get("ok"):
            raise common.MachineryError(res.get("error", "")[-2500:])
        for c in res.get("checks", []):
            rep.cov["evaluations"] += 1
            if not c["ok"]:
                rep.violation(dict(kind=c["kind"]), dict(kind="algebra_check", job={k: res["job"][k] for k in ("id", "cfg", "seed", "source")}, check=c), text=str(c)[:600])
        items += [(res["job"], c) for c in res["cases"]]
    vs, st = engine.validate_parallel([c for _, c in items], module="GraphAlgebra")
    rep.add_tlc(st)
    rep.cov["traces_validated_against_impl"] = len(items)
    rep.cov["evaluations"] += len(items)
    ops = {}
    for (job, c), v in zip(items, vs):
        ops[c["op"]] = ops.get(c["op"], 0) + 1
        rep.sample(dict(case=c["id"], op=c["op"], verdict=v["verdict"]), limit=8)
        if v["verdict"] == "accept":
            rep.nontrivial(c["id"])
            continue
        shadow = any(x.get("name", x["out"]) != x["out"] for x in job["cfg"]["conns"])
        rep.violation(dict(clause=v["clause"], op=c["op"], shadow_names=shadow, flag=c.get("flag")),
                      dict(kind="algebra_case", job={k: job[k] for k in ("id", "cfg", "seed", "source")}, case_id=c["id"], verdict=v),
                      text=f"{c['id']} rejected by GraphAlgebra clause {v['clause']}: {v['detail'][:600]}")
    rep.cov["cases_per_op"] = ops
    rep.cov["rule"] = ("real records (threaded runtime, ragged multi-episode, connections with shadow input names) and generated graphs cut to ragged "
                       "lengths; for each: EpisodeRecord.to_graph, Graph.stack + len + indexing, ExperimentRecord.stack/to_graph, Graph.filter and "
                       "EpisodeRecord.filter over node subsets with both flags, utils.to_networkx_graph; GraphAlgebra recomputes each result from the "
                       "inputs (Strip/Index/Filter/ToNx laws) and compares")
    return rep.finish()


# ================================================================================================
# C18  search solvers
# ================================================================================================
def _solver_histories(N, E, losses, maxit):
    cfgp = os.path.join(tlc.SPECS, f"Solvers_{N}_{E}_{maxit}.cfg")
    with open(cfgp, "w") as f:
        f.write(f"SPECIFICATION MSpec\nCONSTANTS\n  N = {N}\n  E = {E}\n  Losses = {{{', '.join(str(x) for x in losses)}}}\n  MaxIt = {maxit}\n"
                "INVARIANT BestIsMinFiniteSoFar\nINVARIANT BestMemberAttainsIt\nINVARIANT NaNNeverBestWhileFiniteExists\nINVARIANT NaNEliteOnlyIfAllFiniteAre\n"
                "INVARIANT Emit\nPROPERTY BestNeverIncreases\nCHECK_DEADLOCK FALSE\n")
    try:
        r = tlc.run_tlc("Solvers", cfg=os.path.basename(cfgp), workers=1, timeout=1200, heap="4g")
    finally:
        os.remove(cfgp)
    st = r["stats"]
    if st["invariant_violated"] or st["property_violated"] or st["error"] or not st["finished"]:
        raise common.MachineryError("Solvers model: " + r["out"][-2500:])
    hs = []
    for line in r["out"].splitlines():
        line = line.strip()
        if line.startswith('"SOLV|'):
            d = json.loads(line[6:-1].replace('\\"', '"'))
            if len(d["hist"]) == maxit:
                hs.append(d)
    return hs, st


def cem_replay_job(job):
    """Replay loss histories on the real rex.cem.cem_update_mean_stdev. Candidates are one-hot vectors so that the elite set is
    readable from the updated mean (evolution_smoothing = 0)."""
    import jax
    import jax.numpy as jnp
    import numpy as onp

    from rex.cem import CEMSolver, cem_update_mean_stdev

    N, E = job["N"], job["E"]
    u_min = {"x": jnp.zeros((N,))}
    u_max = {"x": jnp.ones((N,)) * 10}
    solver = CEMSolver.init(u_min=u_min, u_max=u_max, num_samples=N, evolution_smoothing=0.0, elite_portion=E / N + 1e-6)
    upd = jax.jit(cem_update_mean_stdev)
    out = []
    for h in job["histories"]:
        state = solver.init_state(mean={"x": jnp.zeros((N,))})
        bad = None
        seen = []
        for k, (L, ex) in enumerate(zip(h["hist"], h["exp"])):
            # candidate i of iteration k: one-hot(i) * (k + 1)
            samples = {"x": jnp.eye(N) * (k + 1)}
            losses = jnp.array([float("nan") if l == -1 else float(l) for l in L])
            state = upd(solver, state, samples, losses)
            got_best = float(state.bestsofar_loss)
            got_best_i = 1000000 if not onp.isfinite(got_best) else int(round(got_best))
            bs = onp.asarray(state.bestsofar["x"])
            nz = onp.nonzero(bs)[0]
            got_id = [int(round(bs[nz[0]])), int(nz[0]) + 1] if len(nz) == 1 else [0, 0]
            mean = onp.asarray(state.mean["x"]) / (k + 1)
            got_el = sorted(int(i) + 1 for i in onp.nonzero(mean > 1e-6)[0])
            exp_id = [ex["best_it"], ex["best_idx"]]
            if got_best_i != ex["best"]:
                bad = dict(iteration=k, what="bestsofar_loss", expected=ex["best"], got=got_best_i, losses=L)
            elif ex["best"] < 1000000 and got_id != exp_id:
                bad = dict(iteration=k, what="bestsofar", expected=exp_id, got=got_id, losses=L)
            elif got_el != sorted(ex["elites"]):
                bad = dict(iteration=k, what="elites", expected=sorted(ex["elites"]), got=got_el, losses=L)
            if bad:
                break
        out.append(dict(hist=h["hist"], ok=bad is None, bad=bad))
    return dict(results=out)


def solver_e2e_job(job):
    """Real cem_step / evo_step runs with a loss that is NaN on a region; per-iteration log -> SolversTrace trace."""
    import jax
    import jax.numpy as jnp
    import numpy as onp

    from rex.base import Identity

    kind, seed = job["solver"], job["seed"]
    rng = random.Random(seed)
    D = rng.choice([1, 2, 3, 2]) if kind == "cem" else rng.choice([2, 3])
    # per-dimension bounds (a tight interval next to a wide one: a bound applied to the wrong dimension, or the loosest one to all, shows)
    lo = onp.array([-1.0 - rng.random() if j % 2 == 0 else -0.1 - 0.1 * rng.random() for j in range(D)], dtype=onp.float32)
    hi = onp.array([1.0 + rng.random() if j % 2 == 0 else 0.1 + 0.1 * rng.random() for j in range(D)], dtype=onp.float32)
    if kind == "cem" and D >= 2 and seed % 2 == 0:
        lo[-1] = hi[-1] = onp.float32(0.25)   # a pinned parameter (u_min == u_max): every candidate carries exactly that value
    # the parameter tree: one leaf "p", or (every third job with D >= 2) two leaves inserted in NON-alphabetical order ("w" = all but the last
    # dimension, then "a" = the last one): jax flattens dicts by sorted key, so a bound vector built in insertion order is applied to the wrong
    # entries (seeded change C18-f)
    split = D >= 2 and seed % 3 == 1

    def pack(v):
        v = jnp.asarray(v)
        return {"w": v[: D - 1], "a": v[D - 1:]} if split else {"p": v}

    def unpack(d):
        return jnp.concatenate([jnp.atleast_1d(d["w"]), jnp.atleast_1d(d["a"])]) if split else d["p"]

    u_min = pack(lo)
    u_max = pack(hi)
    nan_at = rng.choice([0.2, 0.5, -0.1])
    seen = []

    def log_cb(p, l):
        seen.append((onp.asarray(p).copy(), float(l)))

    # every fifth CEM job: a smooth loss with a NON-ZERO interior optimum and a long run - the elites converge tightly (spread ~1e-6 around ~1):
    # their spread is tiny but never NaN (seeded change C18-g computed it as sqrt(E[x^2] - E[x]^2) in float32: cancellation, negative, NaN)
    beyond = kind == "cem" and (seed // 2) % 5 == 2
    target = jnp.asarray(lo + 0.8 * (hi - lo)) if beyond else jnp.zeros((D,))
    if beyond:
        nan_at = 1e9

    def loss(params, transform, rng_):
        p = unpack(params)
        val = jnp.sum(jnp.square(p - target)) * 8.0 if beyond else jnp.floor(jnp.sum(jnp.abs(p)) * 8.0)
        l = jnp.where(p[0] > nan_at, jnp.nan, val)
        jax.debug.callback(log_cb, p, l)
        return l

    iters = []
    T = 30 if beyond else job.get("steps", 6)
    key = jax.random.PRNGKey(seed)
    if kind == "cem":
        from rex.cem import CEMSolver, cem_step

        ns = rng.choice([4, 8, 16, 32])
        smooth, ep = rng.choice([0.0, 0.1, 0.5, 0.9]), rng.choice([0.26, 0.3, 0.5])
        if (seed // 2) % 3 == 1:   # a SINGLE elite (int(num_samples * elite_portion) = 1): the spread of one sample is 0, never NaN (seeded change C18-e)
            ns, ep = ((10, 0.1) if seed % 4 < 2 else (4, 0.26))
        if beyond:
            smooth, ns = 0.1, max(ns, 16)
        solver = CEMSolver.init(u_min=u_min, u_max=u_max, num_samples=ns, evolution_smoothing=smooth, elite_portion=ep)
        state = solver.init_state(mean=pack(lo + (hi - lo) * rng.random()))
        for k in range(T):
            key, sub = jax.random.split(key)
            n0 = len(seen)
            state, losses = cem_step(loss, solver, state, Identity(), sub)
            jax.effects_barrier()
            iters.append(dict(state_best=float(state.bestsofar_loss), best_member=onp.asarray(unpack(state.bestsofar)).copy(), n0=n0, n1=len(seen),
                              losses=onp.asarray(losses)))
        # cem() itself (the scanned loop), warm-started from the state reached so far - first as is, then restarted in a bad region with a tiny
        # spread while KEEPING the best-so-far: what the caller's state carries in stays the best until something better is evaluated
        # (seeded change C18-h re-initialised the carry inside cem())
        from rex.cem import cem
        for w in range(2):
            key, sub = jax.random.split(key)
            n0 = len(seen)
            if w == 1:
                state = state.replace(mean=pack(lo + 0.02 * (hi - lo)), stdev=pack(onp.full((D,), 1e-3, dtype=onp.float32)))
            state, losses = cem(loss, solver, state, Identity(), max_steps=2, rng=sub, verbose=False)
            jax.effects_barrier()
            iters.append(dict(state_best=float(state.bestsofar_loss), best_member=onp.asarray(unpack(state.bestsofar)).copy(), n0=n0, n1=len(seen),
                              losses=onp.asarray(losses)))
    else:
        from rex.evo import EvoSolver, evo_step

        strat = rng.choice(["CMA_ES", "OpenES", "SimpleGA"])
        solver = EvoSolver.init(u_min, u_max, strat, strategy_kwargs=dict(popsize=rng.choice([4, 8, 16])))
        state = solver.init_state(pack(lo + (hi - lo) * rng.random()), rng=key)
        for k in range(T):
            key, sub = jax.random.split(key)
            n0 = len(seen)
            (state, _), losses = evo_step(loss, solver, state, Identity(), sub, None)
            jax.effects_barrier()
            iters.append(dict(state_best=float(state.best_fitness), best_member=onp.asarray(unpack(solver.unflatten(state.best_member))).copy(), n0=n0,
                              n1=len(seen), losses=onp.asarray(losses)))
    tr = []
    for it in iters:
        cands = seen[it["n0"]: it["n1"]]
        L = [(-1 if not onp.isfinite(l) and onp.isnan(l) else int(round(l))) for _, l in cands]
        inb = [bool(onp.all(p >= lo - 1e-6) and onp.all(p <= hi + 1e-6)) for p, _ in cands]
        b = it["state_best"]
        best = 1000000 if (not onp.isfinite(b) or abs(b) > 1e30) else int(round(b))   # evosax starts best_fitness at float32 max: 'nothing finite yet'
        member_ok = any(onp.allclose(p, it["best_member"], atol=1e-6) and (onp.isfinite(l) and int(round(l)) == best) for p, l in seen[: it["n1"]])
        tr.append(dict(losses=L, inbounds=inb, best=best, member_ok=bool(member_ok)))
    return dict(trace=dict(id=f"{job['id']}", iters=tr), meta=dict(solver=kind, strategy=(strat if kind == "evo" else "cem"), dim=D,
                                                                  nan_seen=sum(1 for it in tr for l in it["losses"] if l == -1),
                                                                  cands=sum(len(it["losses"]) for it in tr)))


def c18(tier, seed):
    from . import engine

    rep = common.Report("C18", tier, seed)
    quick = tier == "quick"
    allh = []
    runs = []
    for (N, E, L, M) in ([(3, 1, [0, 1, 2], 2), (3, 2, [0, 1, 2], 2)] if quick else [(3, 1, [0, 1, 2], 2), (3, 2, [0, 1, 2], 2), (4, 2, [0, 1], 2), (3, 1, [0, 1], 3)]):
        hs, st = _solver_histories(N, E, L, M)
        rep.add_tlc(st)
        runs.append(dict(module="Solvers", N=N, E=E, losses=L, iterations=M, histories=len(hs), states=st["distinct"]))
        allh.append((N, E, hs))
    rep.cov["model_runs"] = runs
    rep.cov["exhaustive"] = True
    jobs = []
    for (N, E, hs) in allh:
        for ci in range(0, len(hs), 1200):
            jobs.append(dict(kind="pyfunc", module="harness.checks.smallchecks", func="cem_replay_job", id=f"c18r{N}{E}_{ci}", N=N, E=E, histories=hs[ci: ci + 1200], timeout=1200))
    results = common.run_jobs(jobs)
    nrep = 0
    for res in results:
        if not res.get("ok"):
            raise common.MachineryError(res.get("error", "")[-2500:])
        for rr in res["results"]:
            nrep += 1
            if rr["ok"]:
                if any(-1 in L for L in rr["hist"]):
                    rep.nontrivial(json.dumps(rr["hist"]))
                continue
            b = rr["bad"]
            rep.violation(dict(what=b["what"], has_nan=-1 in b["losses"]), dict(kind="cem_history", history=rr["hist"], bad=b, N=res["job"]["N"], E=res["job"]["E"]),
                          text=f"cem_update_mean_stdev after losses {rr['hist']}: {b}")
    rep.cov["traces_validated_against_impl"] = nrep
    rep.cov["evaluations"] = nrep
    rep.sample(dict(history=[[0, -1, 2], [-1, -1, 1]], meaning="-1 = NaN; replayed on rex.cem.cem_update_mean_stdev with one-hot candidates"))
    # end-to-end runs
    jobs = []
    for i in range(10 if quick else 60):
        jobs.append(dict(kind="pyfunc", module="harness.checks.smallchecks", func="solver_e2e_job", id=f"c18e{i}", solver=("cem" if i % 2 == 0 else "evo"), seed=seed * 100 + i,
                         steps=6 if quick else 12, timeout=900))
    results = common.run_jobs(jobs)
    items = []
    for res in results:
        if not res.get("ok"):
            raise common.MachineryError(res.get("error", "")[-2500:])
        items.append((res["job"], res["trace"], res["meta"]))
    vs, st = engine.validate_parallel([t for _, t, _ in items], module="SolversTrace")
    rep.add_tlc(st)
    rep.cov["traces_validated_against_impl"] += len(items)
    for (job, t, m), v in zip(items, vs):
        rep.sample(dict(run=t["id"], **m, verdict=v["verdict"]), limit=6)
        if v["verdict"] != "accept":
            first_oob = next((k for k, it in enumerate(t["iters"]) if not all(it["inbounds"])), None)
            all_nan_before = first_oob is not None and any(all(l == -1 for l in it["losses"]) for it in t["iters"][:first_oob])
            some_nan_before = first_oob is not None and any(any(l == -1 for l in it["losses"]) for it in t["iters"][:first_oob])
            rep.violation(dict(clause=v["clause"], solver=m["solver"], strategy=m.get("strategy"), all_nan_population_before=bool(all_nan_before),
                               nan_loss_in_an_earlier_population=bool(some_nan_before)),
                          dict(kind="solver_run", job=job, verdict=v), text=f"{t['id']} ({m}): {v['detail'][:600]}")
        elif m["nan_seen"] > 0:
            rep.nontrivial(t["id"])
    rep.cov["rule"] = ("Solvers (TLC): every loss history over {NaN,0,1,2}^N (N=3, elites 1-2, 2 iterations; thorough: more) with invariants BestIsMinFiniteSoFar, "
                       "BestMemberAttainsIt, NaNNeverBestWhileFiniteExists, NaNEliteOnlyIfAllFiniteAre, BestNeverIncreases; every history replayed on the real "
                       "cem_update_mean_stdev (best loss, best candidate, elite set); end-to-end cem_step / evo_step runs (CMA_ES, OpenES, SimpleGA) with a loss that is "
                       "NaN on a region, logged per iteration and validated by SolversTrace incl. CandidateWithinBounds. non-trivial = history / run with NaN losses")
    return rep.finish()


# ================================================================================================
# C19  RL environment wrappers
# ================================================================================================
def _rlw_histories(L, rewards, episodes=(0,), emit=True):
    cfgp = os.path.join(tlc.SPECS, f"RlWrappers_{L}_{len(episodes)}.cfg")
    with open(cfgp, "w") as f:
        f.write(f"SPECIFICATION Spec\nCONSTANTS\n  L = {L}\n  Rewards = {{{', '.join(str(r) for r in rewards)}}}\n  Episodes = {{{', '.join(str(e) for e in episodes)}}}\n"
                "INVARIANT ScheduleInForce\nINVARIANT LogAccounting\nINVARIANT LogStableBetweenEnds\nINVARIANT AutoResetSemantics\nINVARIANT MomentsOfEverythingSeen\n" + ("INVARIANT Emit\n" if emit else "") + "CHECK_DEADLOCK FALSE\n")
    try:
        r = tlc.run_tlc("RlWrappers", cfg=os.path.basename(cfgp), workers=1 if emit else 8, timeout=1800, heap="4g")
    finally:
        os.remove(cfgp)
    st = r["stats"]
    if st["invariant_violated"] or st["error"] or not st["finished"]:
        raise common.MachineryError("RlWrappers model: " + r["out"][-2500:])
    hs = []
    for line in r["out"].splitlines():
        line = line.strip()
        if line.startswith('"RLW|'):
            hs.append(json.loads(line[5:-1].replace('\\"', '"')))
    return hs, st


def rlw_replay_job(job):
    """Replay reward/termination histories on a real wrapped rex.rl.Environment over a compiled graph."""
    import jax
    import jax.numpy as jnp
    import numpy as onp

    import rex.rl as rl
    from rex.graph import Graph

    from .. import compiled, gen
    from ..probes import ProbeOut, probe_out

    L = job["L"]
    cfg = dict(nodes=[dict(name="world", nid=0, period=2, delay=1, cdist=[1], advance=False, sched="F", p=1),
                      dict(name="agent", nid=1, period=2, delay=0, cdist=[0], advance=False, sched="F", p=2)],
               conns=[{"out": "world", "in": "agent", "name": "world", "blocking": False, "skip": False, "jitter": "L", "window": 2, "delay": 0, "cdist": [0]},
                      {"out": "agent", "in": "world", "name": "agent", "blocking": False, "skip": True, "jitter": "L", "window": 1, "delay": 0, "cdist": [0]}],
               sup="agent")
    g_raw, nodes = compiled.generated_graphs(cfg, 0, 2 * (L + 6), 1)
    nodes = gen.build_nodes(cfg, log=False)
    G = Graph(nodes=dict(nodes), supervisor=nodes["agent"], graphs_raw=g_raw, progress_bar=False)
    # observation offset: in every third job the observed signal sits far from zero (|mean| / std of several hundred): the running moments must
    # still be those of everything seen (within float32 tolerance; seeded change C19-f pooled raw second moments and lost the variance)
    OFF = 1000.0 if job["seed"] % 3 == 2 else 0.0
    # action bounds: mostly NOT centred on zero (seeded change C19-e was invisible for symmetric boxes)
    LOW, HIGH = [(-1.0, 3.0), (0.0, 1.0), (-4.0, -2.0), (-2.0, 2.0)][job["seed"] % 4]

    class TableEnv(rl.Environment):
        tables = None

        def observation_space(self, gs):
            return rl.Box(jnp.array([-1e6]), jnp.array([1e6]))

        def action_space(self, gs):
            return rl.Box(jnp.array([LOW]), jnp.array([HIGH]))

        def get_observation(self, gs):
            return jnp.array([gs.step]).astype(jnp.float32) + OFF

        def get_output(self, gs, action):
            return probe_out(1, gs.eps, gs.seq["agent"], jnp.round(action[0] * 1000).astype(jnp.int32))

        def get_reward(self, gs, action):
            return gs.aux["tab_r"][gs.aux["clock"]]

        def get_terminated(self, gs):
            return gs.aux["tab_te"][gs.aux["clock"]]

        def get_truncated(self, gs):
            return gs.aux["tab_tr"][gs.aux["clock"]]

        def update_graph_state_post_step(self, gs, action=None):
            if action is None:
                return gs
            return gs.replace_aux({"clock": gs.aux["clock"] + 1})

        def update_graph_state_pre_step(self, gs, action):
            # the pre-step hook writes into the supervisor's OWN step state (e.g. "remember the last action"): the graph's step must be given
            # the step state of the graph state the hook returned
            from flax.core import FrozenDict
            from ..probes import ProbeState
            ss = gs.step_state["agent"]
            new_ss = ss.replace(state=ProbeState(h=jnp.round(action[0] * 1000).astype(jnp.int32) + 5000))
            return gs.replace_step_states({"agent": new_ss})

        def reset(self, rng=None):
            gs, obs, info = super().reset(rng)
            z = jnp.zeros((L + 1,))
            gs = gs.replace_aux({"clock": jnp.int32(0), "tab_r": z, "tab_te": z.astype(bool), "tab_tr": z.astype(bool)})
            return gs, obs, info

    results = []
    for variant in job["variants"]:
        fixed_init, squash = variant["fixed_init"], variant["squash"]
        env = TableEnv(G, params=None, only_init=bool(variant.get("only_init", False)), starting_eps=0, randomize_eps=False, order=None)
        env = rl.AutoResetWrapper(env, fixed_init=fixed_init)
        env = rl.LogWrapper(env)
        env = rl.SquashActionWrapper(env, squash=squash) if variant.get("wrapper", "squash") == "squash" else rl.ClipActionWrapper(env)
        env = rl.VecEnvWrapper(env)
        env = rl.NormalizeVecObservationWrapper(env)
        env = rl.NormalizeVecReward(env, 1.0)
        gs0, obs0, info0 = env.reset(jax.random.split(jax.random.PRNGKey(job["seed"]), 1))
        step = jax.jit(env.step)
        acts = [-1e9, -1.0, 0.0, 1.0, 1e9]
        for h in job["histories"]:
            hist, outs = h["hist"], h["outs"]
            tab_r = jnp.array([[float(x["r"]) for x in hist] + [0.0] * (L + 1 - len(hist))])
            tab_te = jnp.array([[bool(x["te"]) for x in hist] + [False] * (L + 1 - len(hist))])
            tab_tr = jnp.array([[bool(x["tr"]) for x in hist] + [False] * (L + 1 - len(hist))])
            gs = gs0.replace_aux({"tab_r": tab_r, "tab_te": tab_te, "tab_tr": tab_tr})
            bad = None
            prev_payload = None
            for k, ex in enumerate(outs):
                a = acts[(k + len(hist)) % len(acts)]
                gs_prev = gs
                gs, obs, rew, te, tr, info = step(gs, jnp.array([[a]]))
                no, nr = gs.aux["norm_obs"], gs.aux["norm_reward"]
                cnt = float(no.count)
                mean = float(onp.asarray(no.mean).reshape(-1)[0])
                var = float(onp.asarray(no.var).reshape(-1)[0])
                rc, rm, rvv = float(nr.count), float(onp.asarray(nr.mean)), float(onp.asarray(nr.var))
                got = dict(g=int(onp.asarray(gs.step)[0]), te=bool(onp.asarray(te)[0]), tr=bool(onp.asarray(tr)[0]),
                           done=bool(onp.asarray(info["returned_episode"])[0]),
                           rret=int(round(float(onp.asarray(info["returned_episode_returns"])[0]))), rlen=int(onp.asarray(info["returned_episode_lengths"])[0]),
                           ts=int(onp.asarray(info["timestep"])[0]),
                           on=int(round(cnt)), osx=int(round(mean * cnt)), osxx=int(round((var + mean * mean) * cnt)),
                           rn=int(round(rc)), rsx=int(round(rm * rc)), rsxx=int(round((rvv + rm * rm) * rc)))
                # un-normalised observation: denormalise what the wrapper returned (clip is far away for these values)
                got["obs"] = int(round(float(onp.asarray(no.denormalize(obs)).reshape(-1)[0])))
                # reward is scaled by the running std of the returns; its sign and zero-ness survive
                rsign = int(onp.sign(round(float(onp.asarray(rew)[0]), 6)))
                exp = {k2: ex[k2] for k2 in got}
                if OFF:
                    # the model's signal shifted by OFF: sums follow exactly; compared through mean / variance with a float32 tolerance
                    n_, sx_, sxx_ = ex["on"], ex["osx"] + OFF * ex["on"], ex["osxx"] + 2 * OFF * ex["osx"] + OFF * OFF * ex["on"]
                    c_ = n_ + 1e-4   # count incl. the wrapper's documented pseudo-sample (count 1e-4, mean 0, var 1)
                    m_exp = sx_ / c_
                    v_exp = (sxx_ + 1e-4) / c_ - m_exp * m_exp
                    for k2 in ("osx", "osxx", "obs"):
                        got.pop(k2), exp.pop(k2)
                    obs_got = float(onp.asarray(no.denormalize(obs)).reshape(-1)[0])
                    if abs(mean - m_exp) > 1e-4 * abs(m_exp) + 1e-3 or abs(var - v_exp) > 3e-4 * abs(v_exp) + 3e-3 or not onp.isfinite(obs_got) or abs(obs_got - (ex["obs"] + OFF)) > 0.26:
                        bad = dict(step=k, what="running observation moments of an off-centre signal (offset 1000) = mean / variance of everything seen so far",
                                   expected=dict(mean=m_exp, var=v_exp, obs=ex["obs"] + OFF), got=dict(mean=mean, var=var, obs=obs_got))
                        break
                if got != exp:
                    bad = dict(step=k, expected=exp, got=got, diff=[k2 for k2 in got if got[k2] != exp[k2]])
                    break
                if rsign != (ex["r"] > 0) - (ex["r"] < 0):
                    bad = dict(step=k, what="reward sign", expected=ex["r"], got=float(onp.asarray(rew)[0]))
                    break
                # the supervisor's output in the graph is the action after squash / clip (only observable when no reset happened)
                if not ex["done"]:
                    buf = gs.buffer["agent"]
                    seqs = onp.asarray(buf.seq).reshape(-1)
                    hs_ = onp.asarray(buf.h).reshape(-1)
                    last = int(onp.asarray(gs.seq["agent"]).reshape(-1)[0]) - 1
                    idx = [i for i, s in enumerate(seqs) if s == last]
                    exp_a = (onp.tanh(a) * (HIGH - LOW) / 2 + (HIGH + LOW) / 2) if (squash and variant.get("wrapper", "squash") == "squash") else min(max(a, LOW), HIGH)
                    if not idx or abs(hs_[idx[0]] - round(exp_a * 1000)) > 1 or not (LOW * 1000 - 1 <= hs_[idx[0]] <= HIGH * 1000 + 1):
                        bad = dict(step=k, what="supervisor output is the (squashed/clipped) action", action=a, expected=round(exp_a * 1000),
                                   got=(int(hs_[idx[0]]) if idx else None))
                        break
                    hook_h = int(onp.asarray(gs.state["agent"].h).reshape(-1)[0])
                    if abs(hook_h - (round(exp_a * 1000) + 5000)) > 1:
                        bad = dict(step=k, what="the supervisor's state written by update_graph_state_pre_step is what the graph's step was given", action=a,
                                   expected=round(exp_a * 1000) + 5000, got=hook_h)
                        break
            results.append(dict(hist=hist, variant=variant, ok=bad is None, bad=bad))
    # auto-reset into ANOTHER recorded episode (randomize_eps, freshly drawn initial state): the state returned after an episode end must be the
    # drawn episode's initial state as a whole - in particular the schedule in force (timings_eps) is the one of the episode number in force
    import copy

    import rex.jax_utils as rjax
    cfg2 = copy.deepcopy(cfg)
    cfg2["nodes"][0]["cdist"] = [0, 1, 2]
    cfg2["conns"][0]["cdist"] = [0, 1]
    g_raw2, _ = compiled.generated_graphs(cfg2, job["seed"] + 3, 2 * (L + 6), 4)
    nodes2 = gen.build_nodes(cfg2, log=False)
    G2 = Graph(nodes=dict(nodes2), supervisor=nodes2["agent"], graphs_raw=g_raw2, progress_bar=False)
    env2 = TableEnv(G2, params=None, only_init=False, starting_eps=0, randomize_eps=True, order=None)
    env2 = rl.VecEnvWrapper(rl.LogWrapper(rl.AutoResetWrapper(env2, fixed_init=False)))
    gs, _, _ = env2.reset(jax.random.split(jax.random.PRNGKey(job["seed"] + 11), 1))
    z = jnp.zeros((1, 3 * L + 4))
    te = z.astype(bool).at[0, 1::2].set(True)      # every second step ends an episode
    gs = gs.replace_aux({"tab_r": z, "tab_te": te, "tab_tr": z.astype(bool)})
    step2 = jax.jit(env2.step)
    bad2, seen_eps = None, []
    for k in range(3 * L):
        gs, obs, rew, te_, tr_, info = step2(gs, jnp.array([[0.3]]))
        e = int(onp.asarray(gs.eps)[0])
        seen_eps.append(e)
        want = jax.tree_util.tree_leaves(rjax.tree_take(G2.timings, e))
        got = jax.tree_util.tree_leaves(jax.tree_util.tree_map(lambda x: x[0], gs.timings_eps))
        if len(want) != len(got) or not all(onp.array_equal(onp.asarray(a), onp.asarray(b)) for a, b in zip(want, got)):
            bad2 = dict(step=k, what="after an auto-reset the schedule in force (timings_eps) is the schedule of the episode in force", eps=e, episodes_so_far=seen_eps)
            break
    results.append(dict(hist=[dict(auto_reset_into_other_episode=True)], variant=dict(randomize_eps=True, fixed_init=False), ok=bad2 is None, bad=bad2,
                        episodes=sorted(set(seen_eps))))
    return dict(results=results)


def c19(tier, seed):
    rep = common.Report("C19", tier, seed)
    quick = tier == "quick"
    L = 3 if quick else 4
    hs, st = _rlw_histories(L, [0, 1, 3])  # reward codes: reward = code - 1
    rep.add_tlc(st)
    _, st3 = _rlw_histories(L, [0, 1, 3], episodes=(0, 1, 2), emit=False)   # several recorded episodes, drawn anew at every reset
    rep.add_tlc(st3)
    rep.cov["model_runs"] = [dict(module="RlWrappers", L=L, histories=len(hs), states=st["distinct"], transitions=st["generated"]),
                             dict(module="RlWrappers", L=L, episodes=3, states=st3["distinct"], transitions=st3["generated"])]
    rep.cov["exhaustive"] = True
    rng = random.Random(seed)
    pick = hs if not quick else rng.sample(hs, min(len(hs), 400))
    variants = [dict(fixed_init=True, squash=True), dict(fixed_init=False, squash=False), dict(fixed_init=True, squash=False, wrapper="clip"),
                dict(fixed_init=False, squash=True, only_init=True)]   # only_init: the first partition is skipped, the step counter starts at 1 all the same
    jobs = []
    nchunk = 12
    for ci in range(nchunk):
        ch = pick[ci::nchunk]
        if ch:
            jobs.append(dict(kind="pyfunc", module="harness.checks.smallchecks", func="rlw_replay_job", id=f"c19r{ci}", L=L, seed=seed + ci, histories=ch,
                             variants=[variants[ci % 4]] if quick else variants, timeout=2400))
    results = common.run_jobs(jobs)
    n = 0
    for res in results:
        if not res.get("ok"):
            raise common.MachineryError(res.get("error", "")[-3000:])
        for rr in res["results"]:
            n += 1
            if rr["ok"]:
                if any(x.get("te") or x.get("tr") or x.get("auto_reset_into_other_episode") for x in rr["hist"]):
                    rep.nontrivial(json.dumps([rr["hist"], rr["variant"]]))
                rep.sample(dict(history=rr["hist"], variant=rr["variant"], verdict="conforms"), limit=3)
                continue
            b = rr["bad"]
            rep.violation(dict(diff=b.get("diff"), what=b.get("what"), variant=rr["variant"]), dict(kind="rl_history", history=rr["hist"], variant=rr["variant"], bad=b),
                          text=f"wrappers {rr['variant']} on history {rr['hist']}: {b}")
    rep.cov["traces_validated_against_impl"] = n
    rep.cov["evaluations"] = n
    rep.cov["rule"] = ("RlWrappers (TLC): every reward/termination history of length L over rewards {-1,0,2} x terminated x truncated with invariants "
                       "LogAccounting, LogStableBetweenEnds, AutoResetSemantics, MomentsOfEverythingSeen, ScheduleInForce (also over 3 episodes drawn anew at every reset); each history is replayed on a real "
                       "NormalizeVecReward(NormalizeVecObservation(VecEnv(Squash|Clip(Log(AutoReset(fixed|fresh)(Environment over a compiled graph)))))): after "
                       "every step the observation (= graph step), reward sign, flags, returned episode return/length, timestep, graph step, running moments "
                       "(as exact integer sums) and the supervisor output found in the graph buffer (= squashed/clipped action, inside the bounds) must equal "
                       "the model. Per job one more run over a graph of 4 different recorded episodes with randomize_eps and freshly drawn initial states: after every "
                       "step (every second one ends an episode) the schedule in force is the schedule of the episode number in force (AutoResetSemantics: the "
                       "state after an episode end is the reset state as a whole). non-trivial = history with at least one episode end")
    rep.assumptions += ["scale/unsquash being mutual inverses up to rounding and the numeric value of normalised observations are floating-point identities and are not decided here",
                        "gamma = 1, batch of one, integer rewards"]
    return rep.finish()


# ================================================================================================
# C10  trainable (zero-order-hold) delay = static delay
# ================================================================================================
def _td_cases(quick):
    cfgp = os.path.join(tlc.SPECS, "TrainableDelay_run.cfg")
    with open(cfgp, "w") as f:
        f.write("SPECIFICATION Spec\nCONSTANTS\n  Periods = {2, 3}\n  Jitters = {0, 1}\n  M = %d\n  MaxTs = %d\n  Ranges <- RangesDef\n  Ws = {1, 2%s}\nINVARIANT Emit\nCHECK_DEADLOCK FALSE\n"
                % ((4, 10, "") if quick else (5, 13, ", 3")))
    try:
        r = tlc.run_tlc("TrainableDelay", cfg="TrainableDelay_run.cfg", workers=1, timeout=3000, heap="6g")
    finally:
        os.remove(cfgp)
    st = r["stats"]
    if st["error"] or not st["finished"]:
        raise common.MachineryError("TrainableDelay: " + r["out"][-2500:])
    cases = []
    for line in r["out"].splitlines():
        line = line.strip()
        if line.startswith('"TDC|'):
            cases.append(json.loads(line[5:-1].replace('\\"', '"')))
    return cases, st


def td_replay_job(job):
    """Feed enumerated cases to the real TrainableDist.apply_delay (zoh) and return the window sequence numbers it produces."""
    import jax
    import jax.numpy as jnp
    import numpy as onp

    from rex import base
    from ..probes import GRID

    out = []
    groups = {}
    for i, d in enumerate(job["cases"]):
        c = d["c"]
        groups.setdefault((c["P"], c["Min"], c["Max"], c["W"], len(d["extwin"])), []).append((i, d))
    res = [None] * len(job["cases"])
    for (P, Min, Max, W, cum), lst in groups.items():
        dist0 = base.TrainableDist.create(delay=Min / GRID, min=Min / GRID, max=Max / GRID, interp="zoh")
        ext_real = int(dist0.window(GRID / P))
        if ext_real != cum - W:
            # rex extends the window by a different number of entries than the model's ceil((Max-Min)/P): build the extended window
            # exactly as apply_window would with rex's own extension (the last W+ext messages that arrived under the minimal delay)
            def consumed(d):
                c_ = d["c"]
                ok = [i for i, s in enumerate(d["sent"]) if (s + c_["Min"] < c_["ts"] if c_["skip"] else s + c_["Min"] <= c_["ts"])]
                ok = ok[-(W + ext_real):] if (W + ext_real) > 0 else []
                return [-1] * (W + ext_real - len(ok)) + ok

            lst = [(i, dict(d, extwin=consumed(d), ext_real=ext_real)) for i, d in lst]

        def one(seq, ts_sent, ts_recv, dval, ts):
            dd = dist0.replace(alpha=dist0.get_alpha(dval))
            inp = base.InputState.from_outputs(seq, ts_sent, ts_recv, seq.astype(jnp.float32), delay_dist=dd, is_data=True)
            o = dd.apply_delay(GRID / P, inp, ts)
            return o.seq, o.data, o.ts_sent

        f = jax.jit(jax.vmap(one))
        seqs = onp.array([d["extwin"] for _, d in lst], dtype=onp.int32)
        sent = onp.array([[(d["sent"][s] / GRID if s >= 0 else 0.0) for s in d["extwin"]] for _, d in lst], dtype=onp.float32)
        recv = onp.array([[((d["sent"][s] + d["c"]["Min"]) / GRID if s >= 0 else 0.0) for s in d["extwin"]] for _, d in lst], dtype=onp.float32)
        dval = onp.array([d["c"]["d"] / GRID for _, d in lst], dtype=onp.float32)
        ts = onp.array([d["c"]["ts"] / GRID for _, d in lst], dtype=onp.float32)
        oseq, odata, osent = f(seqs, sent, recv, dval, ts)
        oseq, odata = onp.asarray(oseq), onp.asarray(odata)
        for k, (i, d) in enumerate(lst):
            res[i] = dict(seq=[int(x) for x in oseq[k]], data=[int(round(float(x))) for x in odata[k]], n=int(oseq.shape[1]), ext_real=ext_real)
    return dict(results=res)


def c10_e2e_cfg(seed, jitter=False, skip=False):
    """Generated graph (non-blocking connections only) with one connection made trainable; without `jitter` the sender's computation delay is
    constant (sends exactly one period apart: the compile-time window extension suffices), without `skip` no tie rule is involved."""
    import random

    from . import compiledchecks as cc

    rng = random.Random(seed)
    cfg = cc._gen_cfgs(seed, 1)[0]
    cands = [c for c in cfg["conns"] if (skip or not c["skip"])]
    if not cands:
        return None
    c = rng.choice(cands)
    src = [n for n in cfg["nodes"] if n["name"] == c["out"]][0]
    if not jitter:
        src["cdist"] = [rng.choice(src["cdist"])]
    ranges = [(0, 2), (1, 3), (0, 4), (2, 6), (1, 5)]   # max - min a power of two: alpha is exact in float32
    P = src["period"]
    # half of the time a range whose bounds are not aligned with the sender's period (frac(max/P) > frac(min/P) > 0): there
    # ceil(rate*(max-min)) differs from ceil(rate*max) - ceil(rate*min) (seeded changes C10-a / C07-c)
    mis = [(a, b) for a, b in ranges if (b % P) > (a % P) > 0]
    mn, mx = rng.choice(mis) if mis and rng.random() < 0.5 else rng.choice(ranges)
    c["train"] = dict(min=mn, max=mx)
    c["skip"] = skip
    c["blocking"] = False
    c["jitter"] = "L"
    c["delay"] = mn
    c["cdist"] = [mn]
    return cfg


def _c10_e2e(rep, quick, seed):
    """End to end (C10 as stated): compiled system with the trainable delay set to d  vs  compiled system with the static delay d."""
    import re

    from . import engine

    modes = [("mcs", True), ("gen", False), ("topo", True), ("mcs", False), ("gen", True), ("topo", False)]
    jobs = []
    n = 8 if quick else 60
    for s in range(n):
        cfg = c10_e2e_cfg(seed * 1000 + 5000 + s, jitter=(s % 4 == 3), skip=(s % 5 == 4))
        if cfg is None:
            continue
        tr = [c for c in cfg["conns"] if "train" in c][0]["train"]
        vars_ = [dict(d=d, how=["dist", "init_delays", "params"][(d + s) % 3], jit=((d + s) % 4 != 0)) for d in range(0, tr["max"] + 2)]
        for v in vars_:
            if v["how"] != "dist" and (v["d"] + s) % 2 == 0:
                v["d0"] = tr["max"]   # connection created with the maximal delay, the delay in force set (lower) at init
        mode, prune = modes[s % 6]
        jobs.append(dict(kind="pyfunc", module="harness.compiled_jobs", func="c10_e2e_job", id=f"c10e{s}", cfg=cfg, seed=seed + s, variants=vars_, mode=mode,
                         prune=prune, ts_max=48 if quick else 64, timeout=2400))
    results = common.run_jobs(jobs, timeout=2700)
    runs, metas, statics = [], [], []
    for r in results:
        if not r.get("ok"):
            if r.get("timeout"):
                rep.note(f"job {r['job']['id']} exceeded its budget")
                continue
            raise common.MachineryError(r.get("error", "")[-3000:])
        for nt in r.get("notes", []):
            rep.note(f"{r['job']['id']}: {nt}")
        runs += r["runs"]
        metas += r["meta"]
        statics += r["static"]
    vs, st = engine.validate_parallel(runs, module="RexRun")
    rep.add_tlc(st)
    vss, st2 = engine.validate_parallel(statics, module="RexSchedule")
    rep.add_tlc(st2)
    for t, v in zip(statics, vss):
        if v["verdict"] != "accept":
            rep.note(f"schedule trace {t['id']} rejected by RexSchedule clause {v['clause']} (belongs to C07): {v['detail'][:300]}")
    stats = dict(pairs=0, pairs_equal=0, known=0, drift=0, saturated_pairs=0, by_how={})
    for t, v, m in zip(runs, vs, metas):
        if m["system"] == "B":
            if v["verdict"] != "accept":
                rep.note(f"reference run {t['id']} (static delay) rejected by RexRun clause {v['clause']} (not C10's business): {v['detail'][:300]}")
            continue
        stats["pairs"] += 1
        rep.cov["traces_validated_against_impl"] += 1
        rep.cov["evaluations"] += 1
        if v["verdict"] == "accept":
            stats["pairs_equal"] += 1
            stats["by_how"][m["variant"]["how"]] = stats["by_how"].get(m["variant"]["how"], 0) + 1
            if m["variant"]["d"] != m["deff"]:
                stats["saturated_pairs"] += 1
            rep.nontrivial(t["id"])
            continue
        if not v["clause"].startswith("MatchesAsync_"):
            # the run agrees with the reference as far as compared, but not with the implementation-shaped model of apply_delay / the runtime
            stats["drift"] += 1
            rep.note(f"MODEL-DRIFT property=C10: {t['id']} rejected by RexRun clause {v['clause']} before any disagreement with the static system: {v['detail'][:300]}")
            continue
        at = re.search(r'at \|-> <<(\d+), "(\w+)", (\d+)>>', v["detail"])
        node, seq = at.group(2), int(at.group(3))
        cls = "other"
        if node == m["key"].split(">")[1] and seq < len(m["starts"]):
            start, d, mn = m["starts"][seq], m["deff"], m["train"]["min"]
            ext = -(-(m["train"]["max"] - mn) // m["period_out"])
            tie = any(x + d == start for x in m["sent"])
            between = sum(1 for x in m["sent"] if x + mn <= start and x + d > start)
            if m["skip"] and tie:
                cls = "skip_tie"
            elif between > ext:
                cls = "window_extension_too_small"
        if cls != "other":
            stats["known"] += 1
        rep.violation(dict(kind="zoh_differs_from_static", cls=cls), dict(kind="c10_e2e", trace_id=t["id"], meta=m, verdict=v),
                      text=f"end to end: {t['id']} (delay {m['variant']} -> {m['deff']} ticks, {m['mode']}/{'prune' if m['prune'] else 'noprune'}) differs from the system with the "
                           f"static delay at step {seq} of {node} (class {cls}): {v['detail'][:400]}")
    return stats


def c10(tier, seed):
    rep = common.Report("C10", tier, seed)
    quick = tier == "quick"
    cases, st = _td_cases(quick)
    rep.add_tlc(st)
    model_dis = sum(1 for d in cases if d["zoh"] != d["static"])
    rep.cov["model_runs"] = [dict(module="TrainableDelay", cases=len(cases), states=st["distinct"], model_disagreements_zoh_vs_static=model_dis)]
    rep.cov["exhaustive"] = True
    chunks = [cases[i::16] for i in range(16)]
    jobs = [dict(kind="pyfunc", module="harness.checks.smallchecks", func="td_replay_job", id=f"c10r{i}", cases=ch, timeout=1800) for i, ch in enumerate(chunks) if ch]
    results = common.run_jobs(jobs)
    n = 0
    drift = 0
    for res, ch in zip(results, [c for c in chunks if c]):
        if not res.get("ok"):
            raise common.MachineryError(res.get("error", "")[-3000:])
        for d, r in zip(ch, res["results"]):
            n += 1
            c = d["c"]
            got = [s if s >= 0 else -1 for s in r["seq"]]
            if r["n"] != c["W"]:
                rep.violation(dict(kind="window_size"), dict(kind="td_case", case=d, got=r), text=f"apply_delay returned {r['n']} entries, window is {c['W']}: {c}")
                continue
            if r["data"] != r["seq"]:
                rep.violation(dict(kind="payload_of_other_entry"), dict(kind="td_case", case=d, got=r), text=f"apply_delay: payloads {r['data']} do not belong to sequence numbers {r['seq']}: {c}")
                continue
            if got != d["zoh"]:
                drift += 1  # the code no longer follows the implementation-shaped model (not a verdict by itself)
            if got == d["static"]:
                if c["d"] != d["deff"] or d["tie"] or any(s < 0 for s in got):
                    rep.nontrivial(json.dumps(c, sort_keys=True))
                continue
            cls = "other"
            if c["skip"] and d["tie"]:
                cls = "skip_tie"
            elif d["idxmin"] < 0 and r.get("ext_real", d["ext"]) == d["ext"]:
                cls = "window_extension_too_small"
            rep.violation(dict(kind="zoh_differs_from_static", cls=cls), dict(kind="td_case", case=d, got=r),
                          text=f"apply_delay gives window {got}, a static delay of {d['deff']} gives {d['static']} (class {cls}): case {c}, sends at {d['sent']}")
    rep.cov["traces_validated_against_impl"] = n
    rep.cov["evaluations"] = n
    e2e = _c10_e2e(rep, quick, seed)
    if drift:
        rep.note(f"MODEL-DRIFT property=C10: {drift} cases where apply_delay differs from the ZohWindow model (verdicts are taken against StaticWindow only)")
    rep.sample(cases[0])
    rep.sample(next((d for d in cases if d["zoh"] != d["static"]), cases[-1]))
    rep.cov["rule"] = ("TrainableDelay (TLC) enumerates sender timelines (period 2-3 ticks, jittered send times), step start times, ranges [min,max] in "
                       "{[0,2],[1,3],[0,4]}, every grid delay d from 0 to max+1 (saturation), window 1-2(3), skip on/off; for each case the extended window the "
                       "compiled schedule would hand over is built as a real InputState and given to the real TrainableDist.apply_delay (zoh); the result must be "
                       "StaticWindow(d): exactly `window` entries, the last messages that arrived by the step's start under a fixed delay d. non-trivial = case with a "
                       "tie, saturation or a partially filled window")
    rep.cov["end_to_end"] = e2e
    rep.assumptions += ["unit level: apply_delay on extended windows built as apply_window builds them; end to end: pairs of compiled systems on graphs generated by rex "
                        "(generate_graphs), one episode, rollout over the whole horizon, compared on the steps both systems execute",
                        "ranges with max-min a power of two so that alpha and min+alpha*(max-min) are exact in float32 (a tie is decided by exact comparison)"]
    return rep.finish()


# ================================================================================================
# C08 (model part)  sizing rule of the output ring buffers: BufferSize.tla enumerated, replayed on Timings.get_buffer_sizes
# ================================================================================================
def _buffer_schedules(G, ws="{1, 2}", workers=8):
    cfgp = os.path.join(tlc.SPECS, "BufferSize_run.cfg")
    with open(cfgp, "w") as f:
        f.write(f"SPECIFICATION Spec\nCONSTANTS\n  G = {G}\n  Ws = {ws}\n  MaxN = {G + 3}\nINVARIANT FormulaSafe\nINVARIANT Monotone\nINVARIANT Emit\nCHECK_DEADLOCK FALSE\n")
    try:
        r = tlc.run_tlc("BufferSize", cfg="BufferSize_run.cfg", workers=workers, timeout=3000, heap="6g")
    finally:
        os.remove(cfgp)
    st = r["stats"]
    if st["error"] or not st["finished"] or st["invariant_violated"]:
        raise common.MachineryError("BufferSize (the sizing rule as transcribed is not safe on the model, or TLC failed): " + r["out"][-2500:])
    out = []
    for line in r["out"].splitlines():
        line = line.strip()
        if line.startswith('"BUF|'):
            out.append(json.loads(line[5:-1].replace('\\"', '"')))
    return out, st


def buffer_rule_job(job):
    """Each enumerated schedule -> a synthetic rex Timings object (producer kind P, consumer kind C, two generations per partition) ->
    the real Timings.get_buffer_sizes()."""
    import numpy as onp

    from rex import base

    res = []
    for s in job["schedules"]:
        pw, last, W = s["pw"], s["last"], s["W"]
        G = len(pw)
        steps = (G + 1) // 2
        slots = {}
        written = -1
        wr_before = []
        for p in range(G):
            wr_before.append(written)
            if pw[p]:
                written += 1
        for g in (0, 1):
            run_p = onp.zeros((1, steps), bool)
            seq_p = onp.zeros((1, steps), int)
            run_c = onp.zeros((1, steps), bool)
            seq_c = onp.zeros((1, steps), int)
            win = onp.zeros((1, steps, W), int)
            nread = 0
            for p in range(G):
                st_, gg = divmod(p, 2)
                if gg != g:
                    continue
                if pw[p]:
                    run_p[0, st_] = True
                    seq_p[0, st_] = wr_before[p] + 1
                if last[p] != -99:
                    run_c[0, st_] = True
                    seq_c[0, st_] = sum(1 for q in range(p) if last[q] != -99)
                    win[0, st_, :] = [max(last[p] - W + j + 1, -1) for j in range(W)]
            z = onp.zeros((1, steps))
            slots[f"sP_{g}"] = base.SlotVertex(seq=seq_p, ts_start=z, ts_end=z, windows={}, run=run_p, kind="P", generation=g)
            slots[f"sC_{g}"] = base.SlotVertex(seq=seq_c, ts_start=z, ts_end=z,
                                               windows={"P": base.Window(seq=win, ts_sent=onp.zeros(win.shape), ts_recv=onp.zeros(win.shape))},
                                               run=run_c, kind="C", generation=g)
        try:
            sizes = base.Timings(slots=slots).get_buffer_sizes()
            real = int(max(sizes["P"])) if len(sizes["P"]) else None
            res.append(dict(real=real))
        except Exception as e:  # noqa
            res.append(dict(error=repr(e)[:300]))
    # two consumers (C, D) of the same producer: the producer's ring as get_output_buffer() really allocates it
    import jax.numpy as jnp

    class _Fake:
        def init_output(self, rng=None, graph_state=None):
            return jnp.zeros(())

    pairs = []
    for a, b in job.get("pairs", []):
        pw, G = a["pw"], len(a["pw"])
        steps = (G + 1) // 2
        slots = {}
        wr_before, written = [], -1
        for p in range(G):
            wr_before.append(written)
            if pw[p]:
                written += 1
        for g in (0, 1):
            z = onp.zeros((1, steps))
            run_p, seq_p = onp.zeros((1, steps), bool), onp.zeros((1, steps), int)
            for p in range(g, G, 2):
                if pw[p]:
                    run_p[0, p // 2], seq_p[0, p // 2] = True, wr_before[p] + 1
            slots[f"sP_{g}"] = base.SlotVertex(seq=seq_p, ts_start=z, ts_end=z, windows={}, run=run_p, kind="P", generation=g)
            for kind, s in (("C", a), ("D", b)):
                last, W = s["last"], s["W"]
                run_c, seq_c, win = onp.zeros((1, steps), bool), onp.zeros((1, steps), int), onp.zeros((1, steps, W), int)
                for p in range(g, G, 2):
                    if last[p] != -99:
                        run_c[0, p // 2] = True
                        seq_c[0, p // 2] = sum(1 for q in range(p) if last[q] != -99)
                        win[0, p // 2, :] = [max(last[p] - W + j + 1, -1) for j in range(W)]
                slots[f"s{kind}_{g}"] = base.SlotVertex(seq=seq_c, ts_start=z, ts_end=z,
                                                        windows={"P": base.Window(seq=win, ts_sent=onp.zeros(win.shape), ts_recv=onp.zeros(win.shape))},
                                                        run=run_c, kind=kind, generation=g)
        try:
            buf = base.Timings(slots=slots).get_output_buffer({"P": _Fake(), "C": _Fake(), "D": _Fake()})
            pairs.append(dict(P=int(buf["P"].shape[0]), C=int(buf["C"].shape[0]), D=int(buf["D"].shape[0])))
        except AssertionError as e:
            pairs.append(dict(refused=repr(e)[:200]))
        except Exception as e:  # noqa
            pairs.append(dict(error=repr(e)[:300]))
    return dict(results=res, pairs=pairs)


def c08_buffer_rule(rep, quick):
    scheds, st = _buffer_schedules(4 if quick else 5)
    rep.add_tlc(st)
    chunks = [scheds[i::16] for i in range(16)]
    # pairs of consumer schedules over the same writes (several consumers of one producer)
    rng = random.Random(rep.seed)
    bypw = {}
    for s in scheds:
        bypw.setdefault(json.dumps(s["pw"]), []).append(s)
    groups = [g for g in bypw.values() if len(g) >= 2]
    npairs = 40 if quick else 250
    pchunks = [[tuple(rng.sample(rng.choice(groups), 2)) for _ in range(npairs)] if groups else [] for _ in range(16)]
    jobs = [dict(kind="pyfunc", module="harness.checks.smallchecks", func="buffer_rule_job", id=f"c08rule{i}", schedules=ch, pairs=pchunks[i], timeout=1800)
            for i, ch in enumerate(chunks) if ch]
    results = common.run_jobs(jobs)
    stats = dict(schedules=len(scheds), model_states=st["distinct"], equal_to_rule=0, refused_by_rex=0, tight=0, drift=0, unsafe=0,
                 two_consumer_pairs=0, two_consumer_refused=0)
    for res, ch, pch in zip(results, [c for c in chunks if c], [pchunks[i] for i, c in enumerate(chunks) if c]):
        if not res.get("ok"):
            raise common.MachineryError(res.get("error", "")[-3000:])
        for (a, b), r in zip(pch, res.get("pairs", [])):
            rep.cov["evaluations"] += 1
            if "error" in r:
                raise common.MachineryError(f"get_output_buffer raised on a synthetic Timings: {r['error']} for {a} {b}")
            raw = [x["rex"] for x in (a, b) if x["rex"] != -99]
            want = max(raw) if raw else None
            if "refused" in r:
                stats["two_consumer_refused"] += 1
                if want is not None and want >= 1:
                    rep.violation(dict(kind="buffer_two_consumers_refused"), dict(kind="buffer_rule_pair", a=a, b=b, real=r),
                                  text=f"get_output_buffer() refuses a producer with two consumers whose connections need {want}: {r['refused']}")
                continue
            stats["two_consumer_pairs"] += 1
            need = max(a["safe"], b["safe"])      # NodeN is safe for both (Monotone); anything below the larger SafeN is unsafe for that consumer
            if r["P"] < need or r["C"] < 1 or r["D"] < 1:
                rep.violation(dict(kind="buffer_two_consumers_too_small"), dict(kind="buffer_rule_pair", a=a, b=b, real=r),
                              text=f"get_output_buffer() allocates {r['P']} slots for a producer whose two consumers need {a['safe']} and {b['safe']}: writes at {a['pw']}, "
                                   f"consumer C newest entries {a['last']} window {a['W']}, consumer D newest entries {b['last']} window {b['W']}")
            elif want is not None and r["P"] != max(want, 1):
                stats["drift"] += 1
            else:
                rep.nontrivial(json.dumps([a, b], sort_keys=True))
        for s, r in zip(ch, res["results"]):
            rep.cov["evaluations"] += 1
            rep.cov["traces_validated_against_impl"] += 1
            if "error" in r:
                raise common.MachineryError(f"get_buffer_sizes raised on a synthetic Timings: {r['error']} for {s}")
            real = r["real"]
            if real is None or real < 1:
                stats["refused_by_rex"] += 1      # get_output_buffer refuses a non-positive size (or pads it): nothing is executed with it
                if s["rex"] != -99 and s["rex"] >= 1:
                    stats["drift"] += 1
                continue
            if real < s["safe"]:
                stats["unsafe"] += 1
                rep.violation(dict(kind="buffer_rule_too_small"), dict(kind="buffer_rule", schedule=s, real=real),
                              text=f"Timings.get_buffer_sizes() gives {real} for a schedule that needs {s['safe']} (a scheduled reader would find an overwritten or "
                                   f"never-written slot): writes at {s['pw']}, newest window entry per position {s['last']} (-99: no read), window {s['W']}")
                continue
            if real == s["rex"]:
                stats["equal_to_rule"] += 1
            else:
                stats["drift"] += 1
            if real == s["safe"]:
                stats["tight"] += 1
            rep.nontrivial(json.dumps(s, sort_keys=True))
    if stats["drift"]:
        rep.note(f"MODEL-DRIFT property=C08: {stats['drift']} schedules where get_buffer_sizes() differs from the rule transcribed in BufferSize.tla (still safe)")
    rep.cov["buffer_rule"] = stats
    rep.cov.setdefault("model_runs", []).append(dict(module="BufferSize", schedules=len(scheds), invariant="FormulaSafe", states=st["distinct"]))
    return stats
