"""Checks on configuration objects, graph algebra, generators, solvers, wrappers: C16, C14, C12, C10, C18, C19."""
import json
import os
import random
import re

from .. import common, tlc


# ================================================================================================
# C16  NodeConfig
# ================================================================================================
DIST_VALUES = {"D1": (1,), "D2": (2, 3)}


def _nodecfg_behaviours(seed, num, depth, maxlen):
    cfgp = os.path.join(tlc.SPECS, f"NodeConfig_sim_{seed}.cfg")
    with open(cfgp, "w") as f:
        f.write('SPECIFICATION Spec\nCONSTANTS\n  Nodes = {"a", "b", "c"}\n  Delays = {0, 1, 3}\n  Dists = {"D1", "D2"}\n  MaxLen = %d\n'
                'INVARIANT PhaseIsLongestPath\nINVARIANT LoopIffCycle\nINVARIANT KeysUnique\nINVARIANT Emit\nCHECK_DEADLOCK FALSE\n' % maxlen)
    try:
        lines, tail = tlc.stream_tlc("NodeConfig", os.path.basename(cfgp), '"NCFG|', num * maxlen, depth=depth, seed=seed + 1)
    finally:
        os.remove(cfgp)
    if "is violated" in tail or "Error:" in tail:
        raise common.MachineryError("NodeConfig simulation: " + tail[-2000:])
    states = {}
    for line in lines:
        line = line.strip()
        body = line[6:-1].replace('\\"', '"')
        d = json.loads(body)
        states[json.dumps(d["hist"], sort_keys=True)] = d
    return states, dict(stats=dict(generated=len(lines), distinct=len(states)))


def nodecfg_replay_job(job):
    """Replay NodeConfig behaviours on real BaseNode objects; compare the projected abstract state after every call."""
    from ..probes import GRID, GridDist, ProbeNode
    from rex.constants import Jitter

    def dist_of(did, tag=0):
        return GridDist.create(DIST_VALUES[did], tag=tag)

    def dist_id(d):
        vals = tuple(getattr(d, "values", ()))
        for k, v in DIST_VALUES.items():
            if v == vals:
                return k
        return f"?{vals}"

    def grid(x):
        return int(round(float(x) * GRID))

    def project(nodes, use_info):
        out = {}
        for name, n in nodes.items():
            try:
                ph = grid(n.phase)
            except RecursionError:
                ph = -1
            ent = dict(delay=grid(n.delay), dist=dist_id(n.delay_dist), phase=ph, inputs=[])
            if use_info and ph >= 0:
                info = n.info
                ent = dict(delay=grid(info.delay), dist=dist_id(info.delay_dist), phase=grid(info.phase), inputs=[])
                by_src = {c.output_node.name: k for k, c in n.inputs.items()}
                for src, ii in info.inputs.items():
                    ent["inputs"].append(dict(key=ii.name, src=ii.output, skip=bool(ii.skip), delay=grid(ii.delay), dist=dist_id(ii.delay_dist),
                                              window=int(ii.window), blocking=bool(ii.blocking), phase=grid(ii.phase)))
            else:
                for key, c in n.inputs.items():
                    try:
                        cph = grid(c.phase)
                    except RecursionError:
                        cph = -1
                    ent["inputs"].append(dict(key=key, src=c.output_node.name, skip=bool(c.skip), delay=grid(c.delay), dist=dist_id(c.delay_dist),
                                              window=int(c.window), blocking=bool(c.blocking), phase=cph))
            ent["inputs"].sort(key=lambda x: x["src"])
            out[name] = ent
        return out

    def norm(abs_):
        out = {}
        for name, n in abs_["nodes"].items():
            e = dict(delay=n["delay"], dist=n["dist"], phase=n["phase"], inputs=sorted([dict(i) for i in n["inputs"]], key=lambda x: x["src"]))
            out[name] = e
        return out

    results = []
    for beh in job["behaviours"]:
        hist = beh["hist"]
        init = beh["init_delays"]
        nodes = {k: ProbeNode(name=k, rate=GRID / 4, delay=init[k] / GRID, delay_dist=dist_of("D1"), nid=i) for i, k in enumerate(sorted(init))}
        bad = None
        hist = list(hist)
        abs_after = list(beh["abs_after"])
        if abs_after and all(n["phase"] >= 0 for n in abs_after[-1]["nodes"].values()) and hist[-1]["op"] != "round_trip":
            # RoundTrip is enabled in every loop-free state and is the identity: append it to every behaviour
            hist.append(dict(op="round_trip"))
            abs_after.append(abs_after[-1])
        for step, (op, expected) in enumerate(zip(hist, abs_after)):
            try:
                if op["op"] == "connect":
                    nodes[op["dst"]].connect(nodes[op["src"]], blocking=op["blocking"], delay=op["delay"] / GRID, delay_dist=dist_of(op["dist"]),
                                             window=op["window"], skip=op["skip"], jitter=Jitter.LATEST,
                                             name=("in_" + op["src"]) if op["shadow"] else None)
                elif op["op"] == "set_node_delay":
                    nodes[op["node"]].set_delay(delay_dist=None if op["dist"] == "keep" else dist_of(op["dist"]),
                                                delay=None if op["delay"] == -1 else op["delay"] / GRID)
                elif op["op"] == "set_conn_delay":
                    c = [c for c in nodes[op["dst"]].inputs.values() if c.output_node.name == op["src"]][0]
                    c.set_delay(delay_dist=None if op["dist"] == "keep" else dist_of(op["dist"]), delay=None if op["delay"] == -1 else op["delay"] / GRID)
                elif op["op"] == "round_trip":
                    infos = {k: n.info for k, n in nodes.items()}
                    new = {k: ProbeNode.from_info(info, nid=nodes[k].nid) for k, info in infos.items()}
                    for k, n in new.items():
                        n.connect_from_info(infos[k].inputs, new)
                    nodes = new
            except Exception as e:  # noqa
                bad = dict(step=step, op=op, error=repr(e)[:300])
                break
            exp = norm(expected)
            got_attr = project(nodes, use_info=False)
            got_info = project(nodes, use_info=True)
            if got_attr != exp:
                bad = dict(step=step, op=op, view="attributes", expected=exp, got=got_attr)
                break
            if got_info != exp:
                bad = dict(step=step, op=op, view="info", expected=exp, got=got_info)
                break
        results.append(dict(hist=hist, ok=bad is None, bad=bad))
    return dict(results=results)


def c16(tier, seed):
    rep = common.Report("C16", tier, seed)
    quick = tier == "quick"
    # 1. exhaustive: invariants of the configuration machine
    cfgp = os.path.join(tlc.SPECS, "NodeConfig_mcq.cfg")
    with open(cfgp, "w") as f:
        f.write('SPECIFICATION Spec\nCONSTANTS\n  Nodes = {"a", "b", "c"}\n  Delays = {0, 2}\n  Dists = {"D1"}\n  MaxLen = %d\nVIEW ViewNoHist\nCONSTRAINT SmallConns\n'
                'INVARIANT PhaseIsLongestPath\nINVARIANT LoopIffCycle\nINVARIANT KeysUnique\nCHECK_DEADLOCK FALSE\n' % (3 if quick else 4))
    try:
        r = tlc.run_tlc("NodeConfig", cfg="NodeConfig_mcq.cfg", workers=common.NPROC, timeout=3000, heap="8g")
    finally:
        os.remove(cfgp)
    st = r["stats"]
    if not st["finished"] or st["invariant_violated"] or st["error"]:
        raise common.MachineryError("NodeConfig exhaustive: " + r["out"][-2500:])
    rep.add_tlc(st)
    rep.cov["model_runs"] = [dict(module="NodeConfig", states=st["distinct"], transitions=st["generated"], wall_s=round(r["wall"], 1))]
    # 2. behaviours from TLC's simulator replayed on real nodes
    states, r2 = _nodecfg_behaviours(seed, 150 if quick else 3000, 8, 7)
    rep.add_tlc(r2["stats"])
    # maximal histories and the abstract state after each prefix
    keys = {k: json.loads(k) for k in states}
    behaviours = []
    for k, d in states.items():
        hist = d["hist"]
        if len(hist) < 2:
            continue
        is_prefix = any(len(h2) > len(hist) and h2[: len(hist)] == hist for h2 in keys.values())
        if is_prefix:
            continue
        abs_after = []
        ok = True
        for i in range(2, len(hist) + 1):
            pk = json.dumps(hist[:i], sort_keys=True)
            if pk not in states:
                ok = False
                break
            abs_after.append(states[pk]["abs"])
        if not ok:
            continue
        behaviours.append(dict(hist=hist[1:], abs_after=abs_after, init_delays=hist[0]["delays"]))
    if not behaviours:
        raise common.MachineryError("no behaviours extracted from TLC simulation")
    chunks = [behaviours[i::8] for i in range(8)]
    jobs = [dict(kind="pyfunc", module="harness.checks.smallchecks", func="nodecfg_replay_job", id=f"c16r{i}", behaviours=ch, timeout=900) for i, ch in enumerate(chunks) if ch]
    results = common.run_jobs(jobs)
    nrep = 0
    for res in results:
        if not res.get("ok"):
            raise common.MachineryError(res.get("error", "")[-2500:])
        for rr in res["results"]:
            nrep += 1
            ops = [o["op"] for o in rr["hist"]]
            if rr["ok"]:
                if "round_trip" in ops or any(o.startswith("set_") for o in ops):
                    rep.nontrivial(json.dumps(rr["hist"], sort_keys=True))
                rep.sample(dict(history=rr["hist"], verdict="conforms"), limit=3)
                continue
            b = rr["bad"]
            op = b["op"]
            sig = dict(op=op["op"])
            if op["op"] in ("set_node_delay", "set_conn_delay"):
                sig["dist_given"] = op["dist"] != "keep"
            if op["op"] == "round_trip":
                sig["shadow_names"] = any(o["op"] == "connect" and o["shadow"] for o in rr["hist"])
            rep.violation(sig, dict(kind="nodecfg_history", history=rr["hist"], bad=b),
                          text=f"after {op}: real nodes differ from NodeConfig ({b.get('view', 'exception')}): {json.dumps(b)[:700]}")
    rep.cov["traces_validated_against_impl"] = nrep
    rep.cov["evaluations"] = nrep
    # 3. takes effect in subsequent simulation: episodes after set_delay validated by RexTrace with the NEW supports / expected delays
    from . import engine
    from .asyncchecks import _hist_step

    jobs = []
    for i in range(3 if quick else 12):
        jobs.append(dict(kind="pyfunc", module="harness.checks.smallchecks", func="setdelay_sim_job", id=f"c16s{i}", seed=seed * 100 + i, timeout=900))
    sres = common.run_jobs(jobs)
    traces = []
    for res in sres:
        if not res.get("ok"):
            raise common.MachineryError(res.get("error", "")[-2500:])
        traces += [(res["job"], t) for t in res["traces"]]
    if traces:
        vs, st3 = engine.validate_parallel([t for _, t in traces])
        rep.add_tlc(st3)
        rep.cov["traces_validated_against_impl"] += len(traces)
        for (job, t), v in zip(traces, vs):
            if v["verdict"] != "accept":
                rep.violation(dict(kind="set_delay_in_simulation", clause=v["clause"]), dict(kind="setdelay_sim", job=job, verdict=v),
                              text=f"{t['id']}: episode after set_delay is not a behaviour of the law with the NEW delays: {v['detail'][:600]}")
            else:
                rep.nontrivial(t["id"])
    rep.cov["rule"] = ("NodeConfig (TLC): all configurations reachable by connect / set_delay / info round trip over 3 nodes satisfy PhaseIsLongestPath, "
                       "LoopIffCycle; TLC's simulator emits behaviours (history + abstract state after every call) that are replayed on real BaseNode "
                       "objects: phase (or algebraic-loop RecursionError), expected delays, distribution identity, input keys incl. shadow names, read "
                       "both from attributes and from node.info; round trip through from_info + connect_from_info must be the identity; episodes "
                       "simulated after set_delay must follow the law with the new distributions / expected delays. non-trivial = behaviour with a setter or a round trip")
    return rep.finish()


def setdelay_sim_job(job):
    """Build a graph, change delays through set_delay on nodes and connections, simulate, and return a RexTrace trace whose config carries the NEW values."""
    import jax

    from .. import arun, gen, trace
    from ..probes import GRID, GridDist

    rng = random.Random(job["seed"])
    cfg = gen.gen_config(rng, n_nodes=rng.choice([2, 3]))
    h = arun.AsyncHarness.__new__(arun.AsyncHarness)
    # build nodes by hand so that set_delay can be applied before the AsyncGraph is created
    nodes = gen.build_nodes(cfg)
    tag = 100
    for n in cfg["nodes"]:
        if rng.random() < 0.7:
            new = sorted(set(rng.sample([0, 1, 2, 3, 5], rng.choice([1, 2]))))
            nd = rng.choice([0, 1, max(new)])
            tag += 1
            nodes[n["name"]].set_delay(delay_dist=GridDist.create(new, tag=tag), delay=nd / GRID)
            n["cdist"], n["delay"] = new, nd
    for c in cfg["conns"]:
        if rng.random() < 0.7:
            new = sorted(set(rng.sample([0, 1, 2, 3, 5], rng.choice([1, 2]))))
            cd = rng.choice([0, 1, max(new)])
            tag += 1
            conn = [x for x in nodes[c["in"]].inputs.values() if x.output_node.name == c["out"]][0]
            conn.set_delay(delay_dist=GridDist.create(new, tag=tag), delay=cd / GRID)
            c["cdist"], c["delay"] = new, cd
    if not gen.is_supported(cfg):
        return dict(traces=[])
    import rex.asynchronous as ra
    from rex.constants import Clock

    h.cfg, h.nodes, h.sup = cfg, nodes, nodes[cfg["sup"]]
    h.graph = ra.AsyncGraph(nodes=dict(nodes), supervisor=h.sup, clock=Clock.SIMULATED, real_time_factor=0)
    h.record_settings = dict(params=True, rng=True, inputs=True, state=True, output=True)
    h.graph.set_record_settings(**h.record_settings)
    h.gs0 = h.graph.init(jax.random.PRNGKey(job["seed"]))
    h.graph.warmup(h.gs0)
    h.seed = job["seed"]
    init = h.initial()
    wd = lambda f, w: arun.call_with_watchdog(f, 60, w)  # noqa
    try:
        eps, _ = arun.run_history(h, ["reset"] + ["step"] * 5 + ["stop"], wd=wd)
    except arun.Hang:
        return dict(traces=[], note="watchdog")
    out = []
    for r in eps:
        if "record" in r:
            out.append(trace.build_trace(f"{job['id']}/e{r['eps']}", cfg, r, init, eps=r["gs_eps"], epsrec=r["eps"]))
    return dict(traces=out)


# ================================================================================================
# C12  generated / augmented graphs
# ================================================================================================
def _graph_tables(g, e):
    """base.Graph (batched) episode e -> verts/edges tables including padding rows."""
    import numpy as onp

    from ..probes import to_grid

    verts, edges = {}, {}
    for k, v in g.vertices.items():
        seq, ts, te = onp.asarray(v.seq)[e], onp.asarray(v.ts_start)[e], onp.asarray(v.ts_end)[e]
        verts[k] = [dict(seq=int(seq[j]), start=to_grid(ts[j]) if seq[j] >= 0 else -1, end=to_grid(te[j]) if seq[j] >= 0 else -1) for j in range(len(seq))]
        # padding rows keep their raw times out of the comparison
    for (a, b), ed in g.edges.items():
        so, si, tr = onp.asarray(ed.seq_out)[e], onp.asarray(ed.seq_in)[e], onp.asarray(ed.ts_recv)[e]
        edges[f"{a}>{b}"] = [{"out": int(so[j]), "in": int(si[j]), "recv": to_grid(tr[j]) if so[j] >= 0 else -1} for j in range(len(so))]
    return verts, edges


def gen_graph_job(job):
    """generate_graphs / augment_graphs on a grid configuration -> RexGen traces."""
    import jax
    import networkx as nx
    import numpy as onp

    from rex import base
    from rex.artificial import augment_graphs, generate_graphs
    from rex.utils import to_networkx_graph

    from .. import gen, trace
    from ..probes import GRID

    cfg = job["cfg"]
    tcfg = trace.tla_cfg(cfg)
    nodes = gen.build_nodes(cfg, log=False)
    ts_max, E = job["ts_max"], job["num_episodes"]
    g = generate_graphs(nodes, ts_max=ts_max / GRID, rng=jax.random.PRNGKey(job["seed"]), num_episodes=E)
    out = dict(traces=[], checks=[])
    for e in range(E):
        verts, edges = _graph_tables(g, e)
        out["traces"].append(dict(id=f"{job['id']}/gen/e{e}", cfg=tcfg, ts_max=ts_max, verts=verts, edges=edges,
                                  generated_nodes=sorted(verts), generated_conns=sorted(edges)))
        G = to_networkx_graph(jax.tree_util.tree_map(lambda x: x[e], g), nodes=nodes, validate=True)
        out["checks"].append(dict(kind="acyclic", trace=f"{job['id']}/gen/e{e}", ok=bool(nx.is_directed_acyclic_graph(G))))
    # augmentation: drop nodes / connections, let rex add them again
    rng = random.Random(job["seed"])
    names = [n["name"] for n in cfg["nodes"]]
    for ai in range(job.get("n_aug", 2)):
        drop_nodes = set(rng.sample(names, rng.choice([0, 1]))) if len(names) > 2 else set()
        keep_v = {k: v for k, v in g.vertices.items() if k not in drop_nodes}
        cand_e = [k for k in g.edges if k[0] not in drop_nodes and k[1] not in drop_nodes]
        drop_e = set(rng.sample(cand_e, rng.randint(0 if drop_nodes else 1, max(1, len(cand_e) // 2)))) if cand_e else set()
        keep_e = {k: v for k, v in g.edges.items() if k in cand_e and k not in drop_e}
        if not keep_v:
            continue
        sub = base.Graph(vertices=keep_v, edges=keep_e)
        aug = augment_graphs(sub, nodes, rng=jax.random.PRNGKey(job["seed"] + 17 + ai))
        for e in range(E):
            bv, be = _graph_tables(sub, e)
            av, ae = _graph_tables(aug, e)
            tsm = max([r["end"] for rows in bv.values() for r in rows if r["seq"] >= 0] + [0])
            out["traces"].append(dict(id=f"{job['id']}/aug{ai}/e{e}", cfg=tcfg, ts_max=10 ** 6,  # no horizon is requested from augment_graphs
 verts=av, edges=ae, before=dict(verts=bv, edges=be),
                                      generated_nodes=sorted(set(av) - set(bv)), generated_conns=sorted(set(ae) - set(be))))
            # bitwise: every array of the input reappears in the output
            same = all(onp.array_equal(onp.asarray(getattr(aug.vertices[k], f)), onp.asarray(getattr(sub.vertices[k], f)))
                       for k in sub.vertices for f in ("seq", "ts_start", "ts_end"))
            same = same and all(onp.array_equal(onp.asarray(getattr(aug.edges[k], f)), onp.asarray(getattr(sub.edges[k], f)))
                                for k in sub.edges for f in ("seq_out", "seq_in", "ts_recv"))
            out["checks"].append(dict(kind="augment_bitwise", trace=f"{job['id']}/aug{ai}/e{e}", ok=bool(same)))
    return out


def c12(tier, seed):
    from . import engine
    from .asyncchecks import _graphs

    rep = common.Report("C12", tier, seed)
    quick = tier == "quick"
    jobs = []
    n = 10 if quick else 120
    cfgs = _graphs(seed + 1200, n, allow_blocking=False, allow_buffer=False, allow_advance=False, allow_phase_sched=False, tie_every=3)
    for i, cfg in enumerate(cfgs):
        rng = random.Random(seed + i)
        for nd in cfg["nodes"]:
            nd["sched"] = "F"
        jobs.append(dict(kind="pyfunc", module="harness.checks.smallchecks", func="gen_graph_job", id=f"c12g{i}", cfg=cfg, seed=seed * 10 + i,
                         ts_max=rng.choice([32, 48, 64, 128, 256]), num_episodes=rng.choice([1, 2, 3, 4]), n_aug=2, timeout=900))
    results = common.run_jobs(jobs)
    items = []
    for res in results:
        if not res.get("ok"):
            raise common.MachineryError(res.get("error", "")[-2500:])
        for c in res["checks"]:
            rep.cov["evaluations"] += 1
            if not c["ok"]:
                rep.violation(dict(kind=c["kind"]), dict(kind="gen_check", job={k: res["job"][k] for k in ("id", "cfg", "seed", "ts_max", "num_episodes")}, check=c),
                              text=f"{c}")
        items += [(res["job"], t) for t in res["traces"]]
    vs, st = engine.validate_parallel([t for _, t in items], module="RexGen")
    rep.add_tlc(st)
    rep.cov["traces_validated_against_impl"] = len(items)
    rep.cov["evaluations"] += len(items)
    for (job, t), v in zip(items, vs):
        nv = sum(1 for rows in t["verts"].values() for r in rows if r["seq"] >= 0)
        ne = sum(1 for rows in t["edges"].values() for r in rows if r["out"] >= 0)
        rep.sample(dict(trace=t["id"], ts_max=t["ts_max"], vertices=nv, messages=ne, augmented="before" in t, verdict=v["verdict"]))
        if v["verdict"] == "accept":
            if ne > 0:
                rep.nontrivial(t["id"])
            continue
        sig = dict(clause=v["clause"])
        rep.violation(sig, dict(kind="gen_trace", job={k: job[k] for k in ("id", "cfg", "seed", "ts_max", "num_episodes")}, trace_id=t["id"], verdict=v),
                      text=f"{t['id']} rejected by RexGen clause {v['clause']}: {v['detail'][:600]}")
    rep.cov["rule"] = ("seeded grid configurations (non-blocking, LATEST, FREQUENCY - what generate_graphs supports; multi-valued computation and communication "
                       "delays incl. reordering jitter, skip, windows 1-3, horizons 0.5-4 s, 1-4 episodes); every episode of generate_graphs() and of "
                       "augment_graphs() on a graph with nodes / connections removed is judged by RexGen: FirstStartIsPhase, SpacingAndNoOverlap, "
                       "DurationIsSampledDelay, NothingEndsAfterHorizon, PaddingOnlyAsSuffix, RecvIsEndPlusSampledDelay (FIFO-clamped), "
                       "AssignedToFirstStepAtOrAfterArrival, Augment* ; acyclicity through to_networkx_graph(validate=True). non-trivial = accepted graph with messages")
    rep.assumptions += ["dyadic rates only (the generator adds 1/rate unrounded)"]
    return rep.finish()


# ================================================================================================
# C14  records / graphs: convert, stack, pad, index, filter, networkx
# ================================================================================================
def _tables_of_graph(g, e=None):
    """base.Graph (single episode if e is None and arrays are 1-D) -> tables with ALL rows (padding included)."""
    import numpy as onp

    from ..probes import to_grid

    verts, edges = {}, {}
    for k, v in g.vertices.items():
        seq, ts, te = onp.asarray(v.seq), onp.asarray(v.ts_start), onp.asarray(v.ts_end)
        if e is not None:
            seq, ts, te = seq[e], ts[e], te[e]
        verts[k] = [dict(seq=int(seq[j]), start=(to_grid(ts[j]) if seq[j] >= 0 else -1), end=(to_grid(te[j]) if seq[j] >= 0 else -1)) for j in range(len(seq))]
    for (a, b), ed in g.edges.items():
        so, si, tr = onp.asarray(ed.seq_out), onp.asarray(ed.seq_in), onp.asarray(ed.ts_recv)
        if e is not None:
            so, si, tr = so[e], si[e], tr[e]
        edges[f"{a}>{b}"] = [{"out": int(so[j]), "in": int(si[j]), "recv": (to_grid(tr[j]) if so[j] >= 0 else -1)} for j in range(len(so))]
    return dict(verts=verts, edges=edges)


def _tables_of_record(rec):
    import numpy as onp

    from ..probes import to_grid

    steps, msgs = {}, {}
    for n, nr in rec.nodes.items():
        s = nr.steps
        steps[n] = [dict(seq=int(s.seq[j]), start=to_grid(s.ts_start[j]), end=to_grid(s.ts_end[j])) for j in range(len(onp.asarray(s.seq)))]
        for o, ir in (nr.inputs or {}).items():
            m = ir.messages
            msgs[f"{o}>{n}"] = [{"out": int(m.seq_out[j]), "in": int(m.seq_in[j]), "recv": to_grid(m.ts_recv[j])} for j in range(len(onp.asarray(m.seq_out)))]
    return dict(steps=steps, msgs=msgs)


def algebra_job(job):
    import itertools

    import jax

    from rex import base
    from rex.utils import to_networkx_graph

    from .. import compiled, gen
    from ..probes import to_grid
    from .asyncchecks import _hist_run, _hist_step

    cfg = job["cfg"]
    rng = random.Random(job["seed"])
    cases = []
    ends = {f"{c['out']}>{c['in']}": [c["out"], c["in"]] for c in cfg["conns"]}
    if job["source"] == "record":
        hists = [_hist_step(rng.randint(3, 7)), _hist_run(rng.randint(2, 8)), _hist_step(rng.randint(2, 5))][: rng.choice([2, 3])]
        try:
            g_stacked, eps, h = compiled.record_graphs(cfg, job["seed"], hists)
        except compiled.NoRecord:
            return dict(cases=[])
        nodes = h.nodes
        recs = [e["record_raw"] for e in eps]
        graphs = [r.to_graph() for r in recs]
        for i, (r, g) in enumerate(zip(recs, graphs)):
            cases.append(dict(id=f"{job['id']}/to_graph/e{i}", op="to_graph", rec=_tables_of_record(r), g=dict(verts=_tables_of_graph(g)["verts"], edges=_tables_of_graph(g)["edges"])))
        exp = base.ExperimentRecord(episodes=recs)
        st2 = exp.to_graph()
        # ExperimentRecord.stack (padded records) -> to_graph must agree with to_graph -> stack
        try:
            st3 = exp.stack("padded").to_graph()
            same = jax.tree_util.tree_all(jax.tree_util.tree_map(lambda a, b: bool((jax.numpy.asarray(a) == jax.numpy.asarray(b)).all()), st2, st3))
        except Exception as e:  # noqa
            same = f"exception {e!r}"[:200]
        cases_extra = [dict(kind="record_stack_then_to_graph", ok=(same is True), detail=str(same))]
    else:
        g_stacked, nodes = compiled.generated_graphs(cfg, job["seed"], rng.choice([24, 40, 64]), rng.choice([2, 3]))
        n_e = next(iter(g_stacked.vertices.values())).seq.shape[0]
        # generated episodes carry their own -1 rows (steps beyond the horizon)
        graphs = []
        for e in range(n_e):
            ge = jax.tree_util.tree_map(lambda x: x[e], g_stacked)
            graphs.append(ge)
        recs = None
        cases_extra = []
    eps_tabs = [_tables_of_graph(g) for g in graphs]
    stacked = base.Graph.stack(graphs)
    indexed = [_tables_of_graph(stacked[i]) for i in range(len(graphs))]
    strip = lambda t: dict(verts={k: [r for r in v if r["seq"] >= 0] for k, v in t["verts"].items()},  # noqa
                           edges={k: [r for r in v if r["out"] >= 0] for k, v in t["edges"].items()})
    cases.append(dict(id=f"{job['id']}/stack_index", op="stack_index", eps=[strip(t) for t in eps_tabs], indexed=indexed, len=len(stacked)))
    names = [n["name"] for n in cfg["nodes"]]
    subsets = [s for r in range(1, len(names) + 1) for s in itertools.combinations(names, r)]
    rng.shuffle(subsets)
    for si, sel in enumerate(subsets[: job.get("n_subsets", 4)]):
        sub = {k: nodes[k] for k in sel}
        for flag in (True, False):
            gi = graphs[si % len(graphs)]
            out = gi.filter(sub, filter_edges=flag)
            cases.append(dict(id=f"{job['id']}/filter/{'+'.join(sel)}/{flag}", op="filter", g=_tables_of_graph(gi), sel=list(sel), flag=flag, ends=ends,
                              out=_tables_of_graph(out)))
            if recs is not None:
                r = recs[si % len(recs)]
                try:
                    ro = r.filter(sub, filter_connections=flag)
                    cases.append(dict(id=f"{job['id']}/record_filter/{'+'.join(sel)}/{flag}", op="record_filter", rec=_tables_of_record(r), sel=list(sel),
                                      flag=flag, ends=ends, out=_tables_of_record(ro)))
                except Exception as e:  # noqa
                    cases_extra.append(dict(kind="record_filter_raises", sel=list(sel), flag=flag, ok=False, detail=repr(e)[:300]))
    for i, g in enumerate(graphs[:2]):
        G = to_networkx_graph(stacked[i], nodes=nodes)
        nxn = [dict(name=str(n), kind=d["kind"], seq=int(d["seq"]), start=to_grid(d["ts_start"]), end=to_grid(d["ts_end"])) for n, d in G.nodes(data=True)]
        nxe = [[str(u), str(v)] for u, v in G.edges()]
        cases.append(dict(id=f"{job['id']}/to_nx/e{i}", op="to_nx", g=indexed[i], ends=ends, nx=dict(nodes=nxn, edges=nxe)))
    return dict(cases=cases, checks=cases_extra)


def c14(tier, seed):
    from . import engine
    from .asyncchecks import _graphs

    rep = common.Report("C14", tier, seed)
    quick = tier == "quick"
    jobs = []
    for i, cfg in enumerate(_graphs(seed + 1400, 5 if quick else 40)):
        jobs.append(dict(kind="pyfunc", module="harness.checks.smallchecks", func="algebra_job", id=f"c14r{i}", cfg=cfg, seed=seed * 10 + i, source="record",
                         n_subsets=4 if quick else 8, timeout=900))
    for i, cfg in enumerate(_graphs(seed + 1450, 5 if quick else 40, allow_blocking=False, allow_buffer=False, allow_advance=False, allow_phase_sched=False)):
        for nd in cfg["nodes"]:
            nd["sched"] = "F"
        jobs.append(dict(kind="pyfunc", module="harness.checks.smallchecks", func="algebra_job", id=f"c14g{i}", cfg=cfg, seed=seed * 10 + i, source="generate",
                         n_subsets=4 if quick else 8, timeout=900))
    results = common.run_jobs(jobs)
    items = []
    for res in results:
        if not res.get("ok"):
            raise common.MachineryError(res.get("error", "")[-2500:])
        for c in res.get("checks", []):
            rep.cov["evaluations"] += 1
            if not c["ok"]:
                rep.violation(dict(kind=c["kind"]), dict(kind="algebra_check", job={k: res["job"][k] for k in ("id", "cfg", "seed", "source")}, check=c), text=str(c)[:600])
        items += [(res["job"], c) for c in res["cases"]]
    vs, st = engine.validate_parallel([c for _, c in items], module="GraphAlgebra")
    rep.add_tlc(st)
    rep.cov["traces_validated_against_impl"] = len(items)
    rep.cov["evaluations"] += len(items)
    ops = {}
    for (job, c), v in zip(items, vs):
        ops[c["op"]] = ops.get(c["op"], 0) + 1
        rep.sample(dict(case=c["id"], op=c["op"], verdict=v["verdict"]), limit=8)
        if v["verdict"] == "accept":
            rep.nontrivial(c["id"])
            continue
        shadow = any(x.get("name", x["out"]) != x["out"] for x in job["cfg"]["conns"])
        rep.violation(dict(clause=v["clause"], op=c["op"], shadow_names=shadow, flag=c.get("flag")),
                      dict(kind="algebra_case", job={k: job[k] for k in ("id", "cfg", "seed", "source")}, case_id=c["id"], verdict=v),
                      text=f"{c['id']} rejected by GraphAlgebra clause {v['clause']}: {v['detail'][:600]}")
    rep.cov["cases_per_op"] = ops
    rep.cov["rule"] = ("real records (threaded runtime, ragged multi-episode, connections with shadow input names) and generated graphs cut to ragged "
                       "lengths; for each: EpisodeRecord.to_graph, Graph.stack + len + indexing, ExperimentRecord.stack/to_graph, Graph.filter and "
                       "EpisodeRecord.filter over node subsets with both flags, utils.to_networkx_graph; GraphAlgebra recomputes each result from the "
                       "inputs (Strip/Index/Filter/ToNx laws) and compares")
    return rep.finish()
